#!/bin/sh
# Builds the driver from files on disk only (offline) and warms the Go build cache for the
# simulated tree. Run once in /verif after a fresh restore.
set -e
here=$(cd "$(dirname "$0")" && pwd)
cd "$here"
[ "$here" != /verif ] && export VERIF_DIR="$here"
export GOFLAGS=-mod=mod GOPROXY=off GOSUMDB=off GOTOOLCHAIN=local
mkdir -p bin evidence replays
go1.26.8 build -o bin/simcheck ./cmd/simcheck
# warm the cache: one build of the worker
./bin/simcheck scenarios >/dev/null
if [ "$1" = "full" ]; then
	./bin/simcheck selftest determinism 20
fi
echo "setup ok"
