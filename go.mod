module verif.local/simcheck

go 1.23
