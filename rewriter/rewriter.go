// Package rewriter turns a scratch copy of netpoll into a simulator-ready tree: every source of
// nondeterminism is redirected to a seam of verif.local/simrt (see DESIGN.md section 1.3).
// The rules are purely syntactic and mention no netpoll identifier.
package rewriter

import (
	"bytes"
	"fmt"
	"go/ast"
	"go/parser"
	"go/printer"
	"go/token"
	"os"
	"path/filepath"
	"strconv"
	"strings"
)

const simMod = "verif.local/simrt"

// import path substitutions (whole package swapped, same API)
var importSwap = map[string]string{
	"sync/atomic":                            simMod + "/vatomic",
	"sync":                                   simMod + "/vsync",
	"github.com/bytedance/gopkg/lang/mcache": simMod + "/valloc/mcache",
	"github.com/bytedance/gopkg/lang/dirtmake": simMod + "/valloc/dirtmake",
	"github.com/bytedance/gopkg/lang/fastrand": simMod + "/valloc/fastrand",
}

// selector-level substitutions: pkg path -> names -> target package
var selSwap = map[string]map[string]bool{
	"time": {"Now": true, "Since": true, "Until": true, "NewTimer": true, "After": true, "AfterFunc": true,
		"Sleep": true, "NewTicker": true, "Tick": true, "Timer": true, "Ticker": true},
	"runtime": {"Gosched": true},
	"context": {"WithTimeout": true, "WithDeadline": true},
	"syscall": {"Close": true, "Read": true, "Write": true, "Accept": true, "Accept4": true, "Connect": true, "Bind": true, "Listen": true,
		"Socket": true, "Socketpair": true, "SetNonblock": true, "CloseOnExec": true, "SetsockoptInt": true,
		"GetsockoptInt": true, "Getsockname": true, "Getpeername": true, "Recvmsg": true, "Sendmsg": true, "Shutdown": true,
		"Dup": true, "RawSyscall": true, "RawSyscall6": true, "Syscall": true, "Syscall6": true, "EpollCreate1": true,
		"EpollCtl": true, "EpollWait": true},
}
var selTarget = map[string]string{"time": simMod + "/vtime", "runtime": simMod, "context": simMod, "syscall": simMod + "/vsys"}
var selAlias = map[string]string{"time": "vtime", "runtime": "simrt", "context": "simrt", "syscall": "vsys"}

type fileRW struct {
	fset    *token.FileSet
	f       *ast.File
	pkgOf   map[string]string // local import name -> path
	need    map[string]string // alias -> path to add
	tmp     int
	flagged []string
	fine    bool
	wrapped map[ast.Node]bool // channel operations that are under simulator control
}

// Report lists constructs the rewriter could not put under simulator control.
type Report struct {
	Files   int
	Flagged []string
}

// Options selects optional rules.
type Options struct {
	// FineGrain lists base names of files that get a scheduling point before every statement (R9).
	FineGrain map[string]bool
}

// RewriteTree rewrites every non-test .go file below root in place.
func RewriteTree(root string, opt Options) (*Report, error) {
	rep := &Report{}
	err := filepath.Walk(root, func(path string, info os.FileInfo, err error) error {
		if err != nil {
			return err
		}
		if info.IsDir() {
			return nil
		}
		n := info.Name()
		if !strings.HasSuffix(n, ".go") || strings.HasSuffix(n, "_test.go") {
			return nil
		}
		fl, err := rewriteFile(path, opt.FineGrain[n])
		if err != nil {
			return fmt.Errorf("rewrite %s: %v", path, err)
		}
		rep.Files++
		for _, f := range fl {
			rep.Flagged = append(rep.Flagged, n+": "+f)
		}
		return nil
	})
	return rep, err
}

func rewriteFile(path string, fine bool) ([]string, error) {
	fset := token.NewFileSet()
	f, err := parser.ParseFile(fset, path, nil, parser.ParseComments)
	if err != nil {
		return nil, err
	}
	var keepC []*ast.CommentGroup
	for _, cg := range f.Comments {
		keep := cg.End() < f.Package
		for _, c := range cg.List {
			if strings.HasPrefix(c.Text, "//go:") {
				keep = true
			}
		}
		if keep {
			keepC = append(keepC, cg)
		}
	}
	f.Comments = keepC
	rw := &fileRW{fset: fset, f: f, pkgOf: map[string]string{}, need: map[string]string{}, wrapped: map[ast.Node]bool{}}
	for _, im := range f.Imports {
		p, _ := strconv.Unquote(im.Path.Value)
		name := filepath.Base(p)
		if im.Name != nil {
			name = im.Name.Name
		}
		rw.pkgOf[name] = p
	}
	// R1/R6/R8: import swaps keep the local name
	for _, im := range f.Imports {
		p, _ := strconv.Unquote(im.Path.Value)
		if np, ok := importSwap[p]; ok {
			name := filepath.Base(p)
			if im.Name != nil {
				name = im.Name.Name
			}
			im.Name = ast.NewIdent(name)
			im.Path.Value = strconv.Quote(np)
		}
	}
	// selector swaps
	ast.Inspect(f, func(n ast.Node) bool {
		se, ok := n.(*ast.SelectorExpr)
		if !ok {
			return true
		}
		id, ok := se.X.(*ast.Ident)
		if !ok || id.Obj != nil { // id.Obj != nil => local identifier shadows package
			return true
		}
		p, ok := rw.pkgOf[id.Name]
		if !ok {
			return true
		}
		if names, ok := selSwap[p]; ok && names[se.Sel.Name] {
			id.Name = selAlias[p]
			rw.need[selAlias[p]] = selTarget[p]
		}
		return true
	})
	// statement-level rewrites in every block
	rw.fine = fine
	rw.walkBlocks(f)
	rw.checkUnwrapped(f)
	// imports
	for alias, p := range rw.need {
		addImport(f, alias, p)
	}
	var buf bytes.Buffer
	// final print with //line directives so runtime.Caller reports original positions
	dropUnused(f)
	buf.Reset()
	cfg := printer.Config{Mode: printer.UseSpaces | printer.TabIndent | printer.SourcePos, Tabwidth: 8}
	if err := cfg.Fprint(&buf, fset, f); err != nil {
		return nil, err
	}
	out := buf.Bytes()
	return rw.flagged, os.WriteFile(path, out, 0o644)
}

func addImport(f *ast.File, alias, path string) {
	for _, im := range f.Imports {
		if p, _ := strconv.Unquote(im.Path.Value); p == path {
			return
		}
	}
	spec := &ast.ImportSpec{Name: ast.NewIdent(alias), Path: &ast.BasicLit{Kind: token.STRING, Value: strconv.Quote(path)}}
	for _, d := range f.Decls {
		if gd, ok := d.(*ast.GenDecl); ok && gd.Tok == token.IMPORT {
			gd.Specs = append(gd.Specs, spec)
			if !gd.Lparen.IsValid() {
				gd.Lparen = gd.Pos()
				gd.Rparen = gd.End()
			}
			f.Imports = append(f.Imports, spec)
			return
		}
	}
	gd := &ast.GenDecl{Tok: token.IMPORT, Specs: []ast.Spec{spec}}
	f.Decls = append([]ast.Decl{gd}, f.Decls...)
	f.Imports = append(f.Imports, spec)
}

func (rw *fileRW) fresh(prefix string) string {
	rw.tmp++
	return fmt.Sprintf("_sim%s%d", prefix, rw.tmp)
}

func (rw *fileRW) simCall(fn string, args ...ast.Expr) *ast.CallExpr {
	rw.need["simrt"] = simMod
	return &ast.CallExpr{Fun: &ast.SelectorExpr{X: ast.NewIdent("simrt"), Sel: ast.NewIdent(fn)}, Args: args}
}

func (rw *fileRW) walkBlocks(root ast.Node) {
	// collect pre-existing statement lists first, rewrite inner-most first; generated nodes are never revisited
	var nodes []ast.Node
	ast.Inspect(root, func(n ast.Node) bool {
		switch n.(type) {
		case *ast.BlockStmt, *ast.CaseClause, *ast.CommClause:
			nodes = append(nodes, n)
		}
		return true
	})
	for i := len(nodes) - 1; i >= 0; i-- {
		switch b := nodes[i].(type) {
		case *ast.BlockStmt:
			b.List = rw.rewriteList(b.List)
		case *ast.CaseClause:
			b.Body = rw.rewriteList(b.Body)
		case *ast.CommClause:
			b.Body = rw.rewriteList(b.Body)
		}
	}
}

func isRecv(e ast.Expr) (*ast.UnaryExpr, bool) {
	for {
		if p, ok := e.(*ast.ParenExpr); ok {
			e = p.X
			continue
		}
		break
	}
	u, ok := e.(*ast.UnaryExpr)
	return u, ok && u.Op == token.ARROW
}

func (rw *fileRW) rewriteList(list []ast.Stmt) []ast.Stmt {
	var out []ast.Stmt
	for _, s := range list {
		if rw.fine {
			if _, isDecl := s.(*ast.DeclStmt); !isDecl {
				y := &ast.ExprStmt{X: rw.simCall("Yield", &ast.BasicLit{Kind: token.STRING, Value: strconv.Quote("stmt")}, &ast.BasicLit{Kind: token.INT, Value: "0"})}
				out = append(out, y)
			}
		}
		out = append(out, rw.rewriteStmt(s)...)
	}
	return out
}

// checkUnwrapped flags channel operations that were left outside simulator control.
func (rw *fileRW) checkUnwrapped(root ast.Node) {
	ast.Inspect(root, func(n ast.Node) bool {
		switch x := n.(type) {
		case *ast.SelectStmt:
			if !rw.wrapped[x] {
				rw.flagged = append(rw.flagged, fmt.Sprintf("uncontrolled select at %s", rw.fset.Position(x.Pos())))
			}
		case *ast.SendStmt:
			if !rw.wrapped[x] {
				rw.flagged = append(rw.flagged, fmt.Sprintf("uncontrolled send at %s", rw.fset.Position(x.Pos())))
			}
		case *ast.UnaryExpr:
			if x.Op == token.ARROW && !rw.wrapped[x] {
				rw.flagged = append(rw.flagged, fmt.Sprintf("uncontrolled receive at %s", rw.fset.Position(x.Pos())))
			}
		case *ast.GoStmt:
			rw.flagged = append(rw.flagged, fmt.Sprintf("uncontrolled go statement at %s", rw.fset.Position(x.Pos())))
		}
		return true
	})
}

func (rw *fileRW) before(tk string) ast.Stmt {
	return &ast.AssignStmt{Lhs: []ast.Expr{ast.NewIdent(tk)}, Tok: token.DEFINE, Rhs: []ast.Expr{rw.simCall("BeforeBlock")}}
}
func (rw *fileRW) after(tk string) ast.Stmt {
	return &ast.ExprStmt{X: rw.simCall("AfterBlock", ast.NewIdent(tk))}
}

func (rw *fileRW) rewriteStmt(s ast.Stmt) []ast.Stmt {
	switch st := s.(type) {
	case *ast.LabeledStmt:
		inner := rw.rewriteStmt(st.Stmt)
		if len(inner) == 1 {
			st.Stmt = inner[0]
		} else {
			st.Stmt = &ast.BlockStmt{List: inner}
		}
		return []ast.Stmt{st}
	case *ast.GoStmt:
		return rw.rewriteGo(st)
	case *ast.SendStmt:
		tk := rw.fresh("tk")
		rw.wrapped[st] = true
		return []ast.Stmt{&ast.BlockStmt{List: []ast.Stmt{rw.before(tk), st, rw.after(tk)}}}
	case *ast.ExprStmt:
		if u, ok := isRecv(st.X); ok {
			rw.wrapped[u] = true
			tk := rw.fresh("tk")
			return []ast.Stmt{&ast.BlockStmt{List: []ast.Stmt{rw.before(tk), st, rw.after(tk)}}}
		}
	case *ast.AssignStmt:
		if len(st.Rhs) == 1 {
			if u, ok := isRecv(st.Rhs[0]); ok {
				rw.wrapped[u] = true
				tk := rw.fresh("tk")
				// no enclosing block: a := must stay visible
				return []ast.Stmt{rw.before(tk), st, rw.after(tk)}
			}
		}
	case *ast.ReturnStmt:
		if len(st.Results) == 1 {
			if u, ok := isRecv(st.Results[0]); ok {
				rw.wrapped[u] = true
				tk, r := rw.fresh("tk"), rw.fresh("r")
				asg := &ast.AssignStmt{Lhs: []ast.Expr{ast.NewIdent(r)}, Tok: token.DEFINE, Rhs: []ast.Expr{st.Results[0]}}
				st.Results = []ast.Expr{ast.NewIdent(r)}
				return []ast.Stmt{&ast.BlockStmt{List: []ast.Stmt{rw.before(tk), asg, rw.after(tk), st}}}
			}
		}
	case *ast.SelectStmt:
		return rw.rewriteSelect(st)
	}
	return []ast.Stmt{s}
}

// go f(a, b) => { _f := f; _a := a; _b := b; simrt.Go(func() { _f(_a, _b) }) }
func (rw *fileRW) rewriteGo(g *ast.GoStmt) []ast.Stmt {
	call := g.Call
	var pre []ast.Stmt
	def := func(e ast.Expr, p string) ast.Expr {
		n := rw.fresh(p)
		pre = append(pre, &ast.AssignStmt{Lhs: []ast.Expr{ast.NewIdent(n)}, Tok: token.DEFINE, Rhs: []ast.Expr{e}})
		return ast.NewIdent(n)
	}
	fun := call.Fun
	if _, isLit := fun.(*ast.FuncLit); !isLit {
		fun = def(fun, "f")
	}
	var args []ast.Expr
	for _, a := range call.Args {
		args = append(args, def(a, "a"))
	}
	inner := &ast.CallExpr{Fun: fun, Args: args, Ellipsis: call.Ellipsis}
	if call.Ellipsis.IsValid() {
		inner.Ellipsis = 1
	}
	lit := &ast.FuncLit{Type: &ast.FuncType{Params: &ast.FieldList{}}, Body: &ast.BlockStmt{List: []ast.Stmt{&ast.ExprStmt{X: inner}}}}
	pre = append(pre, &ast.ExprStmt{X: rw.simCall("Go", lit)})
	return []ast.Stmt{&ast.BlockStmt{List: pre}}
}

func (rw *fileRW) rewriteSelect(sel *ast.SelectStmt) []ast.Stmt {
	var comm []*ast.CommClause
	var def *ast.CommClause
	simple := true
	rw.wrapped[sel] = true
	for _, c := range sel.Body.List {
		cc := c.(*ast.CommClause)
		if cc.Comm == nil {
			def = cc
			continue
		}
		comm = append(comm, cc)
		switch c := cc.Comm.(type) {
		case *ast.SendStmt:
			rw.wrapped[c] = true
		case *ast.ExprStmt:
			if u, ok := isRecv(c.X); ok {
				rw.wrapped[u] = true
			}
		case *ast.AssignStmt:
			if u, ok := isRecv(c.Rhs[0]); ok {
				rw.wrapped[u] = true
			}
		}
		if as, ok := cc.Comm.(*ast.AssignStmt); ok && as.Tok == token.DEFINE {
			simple = false
		}
	}
	tk := rw.fresh("tk")
	if len(comm) <= 1 || !simple {
		if len(comm) > 1 {
			rw.flagged = append(rw.flagged, fmt.Sprintf("multi-case select with := left to the Go runtime at %s", rw.fset.Position(sel.Pos())))
		}
		// wrap only: Before; select{ case..: After; body }
		for _, c := range sel.Body.List {
			cc := c.(*ast.CommClause)
			cc.Body = append([]ast.Stmt{rw.after(tk)}, cc.Body...)
		}
		return []ast.Stmt{rw.before(tk), sel}
	}
	// multi-case: hoist operands, ordered polls, blocking select, switch
	idx := rw.fresh("idx")
	var pre []ast.Stmt
	hoist := func(e ast.Expr, p string) ast.Expr {
		n := rw.fresh(p)
		pre = append(pre, &ast.AssignStmt{Lhs: []ast.Expr{ast.NewIdent(n)}, Tok: token.DEFINE, Rhs: []ast.Expr{e}})
		return ast.NewIdent(n)
	}
	// rewrite each comm stmt to use hoisted operands
	for _, cc := range comm {
		switch c := cc.Comm.(type) {
		case *ast.SendStmt:
			c.Chan = hoist(c.Chan, "c")
			c.Value = hoist(c.Value, "v")
		case *ast.ExprStmt:
			u, _ := isRecv(c.X)
			u.X = hoist(u.X, "c")
		case *ast.AssignStmt:
			u, _ := isRecv(c.Rhs[0])
			u.X = hoist(u.X, "c")
		}
	}
	// operands are evaluated first (they may contain scheduling points of their own, e.g. time.After)
	pre = append(pre, rw.before(tk))
	pre = append(pre, &ast.AssignStmt{Lhs: []ast.Expr{ast.NewIdent(idx)}, Tok: token.DEFINE, Rhs: []ast.Expr{&ast.BasicLit{Kind: token.INT, Value: "-1"}}})
	setIdx := func(k int) ast.Stmt {
		return &ast.AssignStmt{Lhs: []ast.Expr{ast.NewIdent(idx)}, Tok: token.ASSIGN, Rhs: []ast.Expr{&ast.BasicLit{Kind: token.INT, Value: strconv.Itoa(k)}}}
	}
	// for _, k := range simrt.SelectOrder(tk, n) { switch k { case i: select { case comm_i: idx = i; default: } }; if idx >= 0 { break } }
	kv := rw.fresh("k")
	var pollCases []ast.Stmt
	for i, cc := range comm {
		one := &ast.SelectStmt{Body: &ast.BlockStmt{List: []ast.Stmt{
			&ast.CommClause{Comm: cc.Comm, Body: []ast.Stmt{setIdx(i)}},
			&ast.CommClause{Comm: nil},
		}}}
		rw.wrapped[one] = true
		pollCases = append(pollCases, &ast.CaseClause{List: []ast.Expr{&ast.BasicLit{Kind: token.INT, Value: strconv.Itoa(i)}}, Body: []ast.Stmt{one}})
	}
	loop := &ast.RangeStmt{Key: ast.NewIdent("_"), Value: ast.NewIdent(kv), Tok: token.DEFINE,
		X: rw.simCall("SelectOrder", ast.NewIdent(tk), &ast.BasicLit{Kind: token.INT, Value: strconv.Itoa(len(comm))}),
		Body: &ast.BlockStmt{List: []ast.Stmt{
			&ast.SwitchStmt{Tag: ast.NewIdent(kv), Body: &ast.BlockStmt{List: pollCases}},
			&ast.IfStmt{Cond: &ast.BinaryExpr{X: ast.NewIdent(idx), Op: token.GEQ, Y: &ast.BasicLit{Kind: token.INT, Value: "0"}}, Body: &ast.BlockStmt{List: []ast.Stmt{&ast.BranchStmt{Tok: token.BREAK}}}},
		}}}
	pre = append(pre, loop)
	// blocking select (or default)
	var blockCases []ast.Stmt
	for i, cc := range comm {
		blockCases = append(blockCases, &ast.CommClause{Comm: cc.Comm, Body: []ast.Stmt{setIdx(i)}})
	}
	defIdx := len(comm)
	if def != nil {
		blockCases = append(blockCases, &ast.CommClause{Comm: nil, Body: []ast.Stmt{setIdx(defIdx)}})
	}
	blockSel := &ast.SelectStmt{Body: &ast.BlockStmt{List: blockCases}}
	rw.wrapped[blockSel] = true
	pre = append(pre, &ast.IfStmt{Cond: &ast.BinaryExpr{X: ast.NewIdent(idx), Op: token.LSS, Y: &ast.BasicLit{Kind: token.INT, Value: "0"}},
		Body: &ast.BlockStmt{List: []ast.Stmt{blockSel}}})
	pre = append(pre, rw.after(tk))
	var bodies []ast.Stmt
	for i, cc := range comm {
		bodies = append(bodies, &ast.CaseClause{List: []ast.Expr{&ast.BasicLit{Kind: token.INT, Value: strconv.Itoa(i)}}, Body: cc.Body})
	}
	if def != nil {
		bodies = append(bodies, &ast.CaseClause{List: []ast.Expr{&ast.BasicLit{Kind: token.INT, Value: strconv.Itoa(defIdx)}}, Body: def.Body})
	}
	bodies = append(bodies, &ast.CaseClause{List: nil, Body: []ast.Stmt{&ast.ExprStmt{X: &ast.CallExpr{Fun: ast.NewIdent("panic"), Args: []ast.Expr{&ast.BasicLit{Kind: token.STRING, Value: strconv.Quote("simrt: unreachable select index")}}}}}})
	pre = append(pre, &ast.SwitchStmt{Tag: ast.NewIdent(idx), Body: &ast.BlockStmt{List: bodies}})
	return []ast.Stmt{&ast.BlockStmt{List: pre}}
}

func dropUnused(f *ast.File) {
	used := map[string]bool{}
	ast.Inspect(f, func(n ast.Node) bool {
		if se, ok := n.(*ast.SelectorExpr); ok {
			if id, ok := se.X.(*ast.Ident); ok {
				used[id.Name] = true
			}
		}
		return true
	})
	var decls []ast.Decl
	for _, d := range f.Decls {
		gd, ok := d.(*ast.GenDecl)
		if !ok || gd.Tok != token.IMPORT {
			decls = append(decls, d)
			continue
		}
		var keep []ast.Spec
		for _, s := range gd.Specs {
			im := s.(*ast.ImportSpec)
			p, _ := strconv.Unquote(im.Path.Value)
			name := filepath.Base(p)
			if im.Name != nil {
				name = im.Name.Name
			}
			if name == "_" || name == "." || used[name] {
				keep = append(keep, s)
			}
		}
		gd.Specs = keep
		if len(keep) > 0 {
			decls = append(decls, gd)
		}
	}
	f.Decls = decls
}
