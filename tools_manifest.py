#!/usr/bin/env python3
# Regenerates MANIFEST.json from the table below (kept in one place so it stays valid).
import json
props=[json.loads(l) for l in open('/verif/properties.jsonl')]
LEVEL="seeded search over schedules, fault sequences and workloads of the real netpoll code inside a deterministic simulator; a clean batch is evidence bounded by the reported runs, distinct traces and probes, not proof"
NOTE="trusted base: the rewriter, simrt scheduler and shims, synctest.Wait as quiescence barrier, the reference models/oracles; yields at atomics, syscalls, channel/mutex operations and spawns only; AF_UNIX sockets on the real kernel"
tech={
 "C01":"seeded operation sequences against a FIFO byte-queue reference model (model-based testing inside the simulator's allocator environment)",
 "C02":"same sequences with every live zero-copy result snapshot-compared after every operation under a poisoning / adversarially reusing allocator; plus deterministic simulation of Slice readers owned by other tasks, read, cut and released under seeded schedules that interleave at the reference-count atomics",
 "C03":"same sequences with an allocator and node-pool ledger (double free, foreign free, caller memory modified); the concurrent Slice-owner scenario runs under the same ledger",
 "C04":"deterministic simulation: two real connections over a socket pair under seeded schedules and kernel short-write/short-read/EAGAIN faults; position-keyed stream oracle",
 "C05":"deterministic simulation: seeded schedule/fault search over the real accept path, pollers and connection state machine; teardown monitors over the recorded history (exactly-once callbacks, descriptor ledger, IsActive monotonicity, poller-spin detection)",
 "C06":"deterministic simulation: seeded schedule/fault search; serial-handler monitor and stranded-input/lost-input oracles at quiescence",
 "C07":"deterministic simulation: seeded schedule and fault search over the real connection/poller code with a virtual clock; interval oracle on reader outcomes",
 "C08":"deterministic simulation: seeded schedule/fault search with a virtual clock; flush outcome vs kernel-accepted-bytes ledger, bounded-liveness at quiescence",
 "C09":"deterministic simulation: seeded schedule/fault search; callback-order monitors over the recorded history",
 "C16":"seeded scripted io.Reader/io.Writer fault sequences against stream reference models",
}
import os
extra=os.environ.get('EXTRA_TECH')
if os.path.exists('/verif/tech_extra.json'):
    tech.update(json.load(open('/verif/tech_extra.json')))
na_reasons={}
if os.path.exists('/verif/na_reasons.json'):
    na_reasons=json.load(open('/verif/na_reasons.json'))
checks=[]
for p in props:
    i=p['id']
    if i not in tech: continue
    checks.append({"property_id":i,"quick_cmd":f"./check.sh {i} quick","thorough_cmd":f"./check.sh {i} thorough","evidence_file":f"/verif/evidence/{i}.json",
      "replay_cmd_template":"./bin/simcheck replay {path}","engine":"simcheck",
      "level_claimed":{"category":"exploration","text":LEVEL,"design_ref":"DESIGN.md section 2 "+i},
      "level_note":NOTE,"technique":tech[i]})
na=[{"property_id":p['id'],"reason":na_reasons.get(p['id'],"check under construction in this session (simulation scenario not yet registered)")} for p in props if p['id'] not in tech]
m={"version":1,"setup_cmd":"./setup.sh",
 "hooks":{"guard":"none - instrumentation is applied by source rewriting of a scratch copy at build time; /repo carries no hooks","enable":"simcheck copies the current /repo working tree to a temporary directory, rewrites it (rewriter/), adds harness/ and builds it with go1.26.8","baseline_off_cmd":"cd /repo && GOFLAGS=-mod=mod go test -json -vet=off -count=1 -timeout 25m ./...","source_commits":[],"add_only":True},
 "engines":[{"name":"simcheck","path":"/verif/bin/simcheck","serves_properties":[c["property_id"] for c in checks],"kind_free_text":"deterministic simulator (tape-driven one-task-at-a-time scheduler over a synctest bubble, virtual clock, syscall fault layer, instrumented allocator) around a source-rewritten copy of netpoll"}],
 "checks":checks,"not_applicable":na,
 "notes":"Exit 0 = held (KNOWN-FINDING lines possible), 1 = VIOLATION lines, 2 = machinery failure. Genuine defects repaired in /repo as fix: commits are listed in known_findings.json with status fixed."}
json.dump(m,open('/verif/MANIFEST.json','w'),indent=1)
print(len(checks),'checks',len(na),'not applicable')
