//go:build go1.22

// Package zzharness is the worker binary of simcheck: `go test -c` of this package inside the
// rewritten scratch copy of netpoll gives the executable that performs the simulated runs.
package zzharness

import (
	"encoding/json"
	"fmt"
	"hash/fnv"
	"os"
	"runtime"
	"runtime/pprof"
	"sort"
	"strings"
	"testing"
	"testing/synctest"
	"time"

	"github.com/cloudwego/netpoll"
	"verif.local/simrt"
)

type Request struct {
	Scenario   string   `json:"scenario"`
	Seed       uint64   `json:"seed"`
	Start      int      `json:"start"`
	Count      int      `json:"count"`
	Stride     int      `json:"stride"`
	DeadlineMs int64    `json:"deadline_ms"`
	Out        string   `json:"out"`
	MaxViol    int      `json:"max_violations"`
	Recheck    int      `json:"recheck_every"` // re-execute every n-th run from its tapes and compare
	Mode       string   `json:"mode"`          // run | replay | shrink | list
	TapeS      []uint32 `json:"tape_s"`
	TapeW      []uint32 `json:"tape_w"`
	Target     string   `json:"target"` // fingerprint to preserve while shrinking
	Trace      bool     `json:"trace"`
	ListHashes bool     `json:"list_hashes"`
	Property   string   `json:"property"` // violations of other properties are recorded but never stop the batch
	RaceLog    string   `json:"race_log"` // GORACE log_path prefix (race build): new reports are attributed to the run that produced them
}

type ViolationOut struct {
	Run         int      `json:"run"`
	Property    string   `json:"property"`
	Oracle      string   `json:"oracle"`
	Fingerprint string   `json:"fingerprint"`
	Class       string   `json:"class"`
	Message     string   `json:"message"`
	Step        int      `json:"step"`
	Outcome     string   `json:"outcome"`
	Summary     string   `json:"summary"`
	TapeS       []uint32 `json:"tape_s"`
	TapeW       []uint32 `json:"tape_w"`
	Log         []string `json:"log,omitempty"`
	Trace       []string `json:"trace,omitempty"`
	Faults      map[string]int `json:"faults,omitempty"`
	Steps       int      `json:"steps"`
	ShrinkTests int      `json:"shrink_tests,omitempty"`
}

type Sample struct {
	Run     int    `json:"run"`
	Summary string `json:"summary"`
	Outcome string `json:"outcome"`
	Steps   int    `json:"steps"`
	Policy  string `json:"policy"`
}

type Response struct {
	Scenario     string          `json:"scenario"`
	Runs         int             `json:"runs"`
	Steps        int64           `json:"steps"`
	VirtualNs    int64           `json:"virtual_ns"`
	Switches     int64           `json:"switches"`
	ClockJumps   int64           `json:"clock_jumps"`
	Outcomes     map[string]int  `json:"outcomes"`
	Traces       []uint64        `json:"traces"`     // distinct trace hashes of non-trivial runs
	States       []uint64        `json:"states"`     // distinct abstract-state hashes
	NonTrivial   int             `json:"nontrivial"` // runs that were non-trivial by the scenario's rule
	Faults       map[string]int  `json:"faults"`
	Probes       map[string]int  `json:"probes"`
	Policies     map[string]int  `json:"policies"`
	Violations   []ViolationOut  `json:"violations"`
	Samples      []Sample        `json:"samples"`
	Rechecked    int             `json:"rechecked"`
	Mismatches   []string        `json:"mismatches"`
	HarnessError []string        `json:"harness_errors"`
	WallMs       int64           `json:"wall_ms"`
	Scenarios    []string        `json:"scenarios,omitempty"`
	RunHashes    []uint64        `json:"run_hashes,omitempty"` // per run: mix(trace hash, steps, outcome, violations)
	ClassRuns    map[string]int  `json:"class_runs,omitempty"` // violating runs per violation class
}

func mix(a ...uint64) uint64 {
	h := uint64(0x9e3779b97f4a7c15)
	for _, x := range a {
		h ^= x + 0x9e3779b97f4a7c15 + (h << 6) + (h >> 2)
		h *= 0xbf58476d1ce4e5b9
		h ^= h >> 29
	}
	return h
}

func strHash(s string) uint64 {
	h := fnv.New64a()
	h.Write([]byte(s))
	return h.Sum64()
}

// runOnce executes one run inside a fresh bubble.
func runOnce(t *testing.T, scenario string, cfg simrt.Config) (res *netpoll.SimResult, herr string) {
	func() {
		defer func() {
			if r := recover(); r != nil {
				s := fmt.Sprint(r)
				if strings.Contains(s, "blocked goroutines remain") {
					return // tasks abandoned by an aborted/violating run
				}
				herr = "panic outside tasks: " + s
			}
		}()
		if simrt.RaceBuild {
			// the testing package fails (and aborts) a test in which the detector reported a race;
			// confine that to a throw-away subtest so that the batch goes on and the result is written
			t.Run("b", func(st *testing.T) {
				defer func() {
					if r := recover(); r != nil && !strings.Contains(fmt.Sprint(r), "blocked goroutines remain") {
						herr = "panic outside tasks: " + fmt.Sprint(r)
					}
				}()
				synctest.Test(st, func(*testing.T) {
					res = netpoll.SimRunScenario(scenario, cfg)
				})
			})
			return
		}
		synctest.Test(t, func(t *testing.T) {
			res = netpoll.SimRunScenario(scenario, cfg)
		})
	}()
	if res == nil && herr == "" {
		herr = "run produced no result"
	}
	return res, herr
}

func policyFor(seed uint64, run int) (cfg simrt.Config, name string) {
	r := simrt.NewRng(mix(seed, uint64(run), 77))
	switch r.Intn(8) {
	case 0:
		cfg.StayNum, cfg.StayDen, name = 0, 1, "uniform"
	case 1:
		cfg.StayNum, cfg.StayDen, name = 1, 2, "stay1/2"
	case 2:
		cfg.StayNum, cfg.StayDen, name = 3, 4, "stay3/4"
	case 3:
		cfg.StayNum, cfg.StayDen, name = 7, 8, "stay7/8"
	case 4:
		cfg.StayNum, cfg.StayDen, name = 15, 16, "stay15/16"
	case 5:
		cfg.StayNum, cfg.StayDen, name = 31, 32, "stay31/32"
	case 6:
		cfg.Prio, cfg.StayNum, cfg.StayDen, name = true, 1, 20, "pct1/20"
	case 7:
		cfg.Prio, cfg.StayNum, cfg.StayDen, name = true, 1, 100, "pct1/100"
	}
	switch r.Intn(3) {
	case 0:
		cfg.TimerNum = 0
	case 1:
		cfg.TimerNum, name = 3, name+"+timer3"
	case 2:
		cfg.TimerNum, name = 24, name+"+timer24"
	}
	return cfg, name
}

func traceStrings(res *simrt.Result, names func(int) string) []string {
	var out []string
	for _, te := range res.Trace {
		if te.Task < 0 {
			out = append(out, fmt.Sprintf("%d clock %s", te.Step, te.Op))
			continue
		}
		out = append(out, fmt.Sprintf("%d t%d %s %s", te.Step, te.Task, te.Op, simrt.SiteString(te.PC)))
	}
	return out
}

func violOut(run int, res *netpoll.SimResult, v simrt.Violation) ViolationOut {
	if v.Class == "" {
		v.Class = v.Fingerprint
	}
	return ViolationOut{Run: run, Property: v.Property, Oracle: v.Oracle, Fingerprint: v.Fingerprint, Class: v.Class, Message: v.Message, Step: v.Step,
		Outcome: res.Outcome, Summary: res.Summary, TapeS: res.TapeS, TapeW: res.TapeW, Log: res.Log, Faults: res.Faults.Map(), Steps: res.Steps,
		Trace: traceStrings(res.Result, nil)}
}

// ---- race detector reports (C19) ----------------------------------------------------------------

var raceLogOff int64

// newRaceReports returns the reports the detector wrote since the last call, reduced to those
// whose two conflicting accesses are both in netpoll's own code (accesses made by harness code
// are ordered by the simulator's hidden hand-off only and say nothing about netpoll).
func newRaceReports(prefix string) (fps []string, texts []string) {
	if prefix == "" {
		return nil, nil
	}
	path := fmt.Sprintf("%s.%d", prefix, os.Getpid())
	data, err := os.ReadFile(path)
	if err != nil || int64(len(data)) <= raceLogOff {
		return nil, nil
	}
	chunk := string(data[raceLogOff:])
	raceLogOff = int64(len(data))
	for _, blk := range strings.Split(chunk, "==================") {
		if !strings.Contains(blk, "DATA RACE") {
			continue
		}
		lines := strings.Split(blk, "\n")
		var sites []string
		harness := false
		for i, l := range lines {
			tl := strings.TrimSpace(l)
			if strings.HasPrefix(tl, "Write at") || strings.HasPrefix(tl, "Read at") || strings.HasPrefix(tl, "Previous write at") || strings.HasPrefix(tl, "Previous read at") ||
				strings.HasPrefix(tl, "Atomic write at") || strings.HasPrefix(tl, "Previous atomic write at") || strings.HasPrefix(tl, "Atomic read at") || strings.HasPrefix(tl, "Previous atomic read at") {
				// the first frame of this access that is netpoll (or harness) code
				site := ""
				for j := i + 1; j+1 < len(lines); j += 2 {
					fn := strings.TrimSpace(lines[j])
					loc := strings.TrimSpace(lines[j+1])
					if fn == "" {
						break
					}
					if strings.Contains(fn, "verif.local/simrt") {
						harness = true // the access happened inside a simulator shim (or below one)
						break
					}
					if strings.Contains(loc, "zzsim_") || strings.Contains(loc, "zzharness") || strings.Contains(fn, "zzharness") {
						harness = true
						break
					}
					if strings.Contains(fn, "cloudwego/netpoll") {
						if k := strings.LastIndex(fn, "/"); k >= 0 {
							fn = fn[k+1:]
						}
						if k := strings.Index(fn, "("); k > 0 && strings.HasSuffix(fn, ")") && !strings.Contains(fn, ").") {
							fn = fn[:k]
						}
						site = strings.TrimSuffix(fn, "()")
						break
					}
				}
				if site == "" && !harness {
					site = "?"
				}
				sites = append(sites, site)
			}
		}
		if harness || len(sites) < 2 {
			continue
		}
		sort.Strings(sites)
		fps = append(fps, "C19/race/"+sites[0]+"+"+sites[1])
		if len(blk) > 3000 {
			blk = blk[:3000] + "..."
		}
		texts = append(texts, strings.TrimSpace(blk))
	}
	return fps, texts
}

// addRaceViolations turns new detector reports into violations of the run that just finished.
func addRaceViolations(req *Request, res *netpoll.SimResult) {
	fps, texts := newRaceReports(req.RaceLog)
	for i := range fps {
		res.Violations = append(res.Violations, simrt.Violation{Property: "C19", Oracle: "race-detector", Class: fps[i], Fingerprint: fps[i], Message: texts[i], Step: res.Steps})
	}
}

func TestSim(t *testing.T) {
	reqPath := os.Getenv("SIM_REQ")
	if reqPath == "" {
		t.Skip("SIM_REQ not set")
	}
	raw, err := os.ReadFile(reqPath)
	if err != nil {
		t.Fatal(err)
	}
	var req Request
	if err := json.Unmarshal(raw, &req); err != nil {
		t.Fatal(err)
	}
	start := time.Now()
	resp := &Response{Scenario: req.Scenario, Outcomes: map[string]int{}, Faults: map[string]int{}, Probes: map[string]int{}, Policies: map[string]int{}}
	switch req.Mode {
	case "list":
		resp.Scenarios = netpoll.SimScenarioNames()
	case "replay":
		doReplay(t, &req, resp)
	case "shrink":
		doShrink(t, &req, resp)
	case "debug":
		sh := strHash(req.Scenario)
		cfg, pname := policyFor(req.Seed, req.Start)
		cfg.SeedS = mix(req.Seed, sh, uint64(req.Start), 1)
		cfg.SeedW = mix(req.Seed, sh, uint64(req.Start), 2)
		cfg.KeepTrace = true
		res, herr := runOnce(t, req.Scenario, cfg)
		if herr != "" {
			resp.HarnessError = append(resp.HarnessError, herr)
			break
		}
		addRaceViolations(&req, res)
		v := simrt.Violation{Message: "(debug run, policy " + pname + ") blocked=" + fmt.Sprint(res.Blocked) + " leaked=" + fmt.Sprint(res.Leaked)}
		if len(res.Violations) > 0 {
			v = res.Violations[0]
		}
		resp.Violations = append(resp.Violations, violOut(req.Start, res, v))
		for _, v2 := range res.Violations[min(1, len(res.Violations)):] {
			vo := violOut(req.Start, res, v2)
			vo.Trace, vo.Log = nil, nil
			resp.Violations = append(resp.Violations, vo)
		}
		resp.Outcomes[res.Outcome]++
	default:
		doRuns(t, &req, resp, start)
	}
	resp.WallMs = time.Since(start).Milliseconds()
	if mp := os.Getenv("SIM_MEMPROFILE"); mp != "" {
		runtime.GC()
		if f, err := os.Create(mp); err == nil {
			pprof.WriteHeapProfile(f)
			f.Close()
		}
		if f, err := os.Create(mp + ".goroutines"); err == nil {
			fmt.Fprintf(f, "goroutines at exit: %d\n", runtime.NumGoroutine())
			pprof.Lookup("goroutine").WriteTo(f, 1)
			f.Close()
		}
	}
	out, _ := json.Marshal(resp)
	if err := os.WriteFile(req.Out, out, 0o644); err != nil {
		t.Fatal(err)
	}
}

// progress: the index of the run in progress is kept in a file, so that the driver can tell which
// run killed the process when netpoll crashes it (fatal errors cannot be recovered).
var progressFile *os.File

func noteRun(run int) {
	if progressFile == nil {
		if p := os.Getenv("SIM_PROGRESS"); p != "" {
			progressFile, _ = os.OpenFile(p, os.O_CREATE|os.O_WRONLY, 0o644)
		}
		if progressFile == nil {
			return
		}
	}
	var b [16]byte
	copy(b[:], fmt.Sprintf("%-15d\n", run))
	progressFile.WriteAt(b[:], 0)
}

func doRuns(t *testing.T, req *Request, resp *Response, start time.Time) {
	if req.Stride <= 0 {
		req.Stride = 1
	}
	if req.MaxViol <= 0 {
		req.MaxViol = 3
	}
	traces := map[uint64]bool{}
	states := map[uint64]bool{}
	seenFP := map[string]bool{}
	sh := strHash(req.Scenario)
	for i := 0; i < req.Count; i++ {
		if req.DeadlineMs > 0 && time.Since(start).Milliseconds() > req.DeadlineMs {
			break
		}
		run := req.Start + i*req.Stride
		noteRun(run)
		cfg, pname := policyFor(req.Seed, run)
		cfg.SeedS = mix(req.Seed, sh, uint64(run), 1)
		cfg.SeedW = mix(req.Seed, sh, uint64(run), 2)
		res, herr := runOnce(t, req.Scenario, cfg)
		if herr != "" {
			resp.HarnessError = append(resp.HarnessError, fmt.Sprintf("run %d: %s", run, herr))
			break
		}
		addRaceViolations(req, res)
		resp.Runs++
		if req.ListHashes {
			resp.RunHashes = append(resp.RunHashes, mix(res.TraceHash, uint64(res.Steps), strHash(res.Outcome), uint64(len(res.Violations)), uint64(res.VirtualNs)))
		}
		resp.Steps += int64(res.Steps)
		resp.VirtualNs += res.VirtualNs
		resp.Switches += int64(res.Switches)
		resp.ClockJumps += int64(res.ClockJumps)
		resp.Outcomes[res.Outcome]++
		resp.Policies[pname]++
		for _, c := range res.Faults {
			resp.Faults[c.Name] += c.N
		}
		for _, c := range res.Probes {
			resp.Probes[c.Name] += c.N
		}
		if res.NonTrivial {
			resp.NonTrivial++
			traces[res.TraceHash] = true
			states[strHash(res.State)] = true
		}
		if len(resp.Samples) < 3 || (res.Outcome != "ok" && len(resp.Samples) < 8) {
			resp.Samples = append(resp.Samples, Sample{Run: run, Summary: res.Summary, Outcome: res.Outcome, Steps: res.Steps, Policy: pname})
		}
		switch res.Outcome {
		case "unannounced-block", "deadlock", "livelock":
			if len(res.Violations) == 0 {
				resp.HarnessError = append(resp.HarnessError, fmt.Sprintf("run %d: outcome %s without a verdict: blocked=%v summary=%s", run, res.Outcome, res.Blocked, res.Summary))
			}
		case "harness-error":
			resp.HarnessError = append(resp.HarnessError, fmt.Sprintf("run %d: the scenario could not be set up: %v summary=%s", run, res.Blocked, res.Summary))
		}
		if len(res.Violations) > 0 {
			// the run's verdict: its first violation of the property being checked, else its first
			v := res.Violations[0]
			for _, vv := range res.Violations {
				if req.Property != "" && vv.Property == req.Property {
					v = vv
					break
				}
			}
			cl := v.Class
			if cl == "" {
				cl = v.Fingerprint
			}
			if resp.ClassRuns == nil {
				resp.ClassRuns = map[string]int{}
			}
			resp.ClassRuns[cl]++
			if !seenFP[cl] {
				seenFP[cl] = true
				resp.Violations = append(resp.Violations, violOut(run, res, v))
			}
			own := 0
			for _, vv := range resp.Violations {
				if req.Property == "" || vv.Property == req.Property {
					own++
				}
			}
			if own >= req.MaxViol {
				break
			}
			continue
		}
		if len(resp.HarnessError) > 0 {
			break
		}
		// determinism re-check: the recorded tapes must reproduce the very same run
		if req.Recheck > 0 && i%req.Recheck == 0 {
			c2 := cfg
			c2.ReplayS, c2.ReplayW, c2.Strict = res.TapeS, res.TapeW, true
			r2, herr := runOnce(t, req.Scenario, c2)
			resp.Rechecked++
			if herr != "" || r2.TraceHash != res.TraceHash || r2.Outcome != res.Outcome || r2.Steps != res.Steps || len(r2.Violations) != len(res.Violations) {
				d := fmt.Sprintf("run %d: replay diverged: %s", run, herr)
				if r2 != nil {
					d = fmt.Sprintf("run %d: replay diverged: hash %x/%x outcome %s/%s steps %d/%d", run, res.TraceHash, r2.TraceHash, res.Outcome, r2.Outcome, res.Steps, r2.Steps)
				}
				resp.Mismatches = append(resp.Mismatches, d)
			}
		}
	}
	for h := range traces {
		resp.Traces = append(resp.Traces, h)
	}
	for h := range states {
		resp.States = append(resp.States, h)
	}
	sort.Slice(resp.Traces, func(i, j int) bool { return resp.Traces[i] < resp.Traces[j] })
	sort.Slice(resp.States, func(i, j int) bool { return resp.States[i] < resp.States[j] })
}

func replayCfg(req *Request, s, w []uint32) simrt.Config {
	return simrt.Config{ReplayS: s, ReplayW: w, Strict: true, KeepTrace: req.Trace}
}

func doReplay(t *testing.T, req *Request, resp *Response) {
	res, herr := runOnce(t, req.Scenario, replayCfg(req, req.TapeS, req.TapeW))
	if herr != "" {
		resp.HarnessError = append(resp.HarnessError, herr)
		return
	}
	addRaceViolations(req, res)
	resp.Runs = 1
	resp.Steps = int64(res.Steps)
	resp.Outcomes[res.Outcome]++
	resp.Traces = []uint64{res.TraceHash}
	resp.Samples = append(resp.Samples, Sample{Summary: res.Summary, Outcome: res.Outcome, Steps: res.Steps})
	for _, v := range res.Violations {
		resp.Violations = append(resp.Violations, violOut(0, res, v))
	}
	switch res.Outcome {
	case "unannounced-block", "deadlock", "livelock":
		if len(res.Violations) == 0 {
			resp.HarnessError = append(resp.HarnessError, fmt.Sprintf("outcome %s without a verdict: blocked=%v", res.Outcome, res.Blocked))
		}
	}
}

// doShrink minimises the tapes while the target fingerprint keeps failing.
func doShrink(t *testing.T, req *Request, resp *Response) {
	tests := 0
	var last *netpoll.SimResult
	try := func(s, w []uint32) bool {
		if tests >= 1500 {
			return false
		}
		tests++
		r := *req
		r.Trace = false
		res, herr := runOnce(t, req.Scenario, replayCfg(&r, s, w))
		if herr != "" || res == nil || res.Outcome == "harness-error" {
			return false
		}
		for _, v := range res.Violations {
			if req.Property != "" && v.Property != req.Property {
				continue
			}
			if v.Fingerprint == req.Target || v.Class == req.Target {
				last = res
				return true
			}
			break // only the first violation (of the property being checked) of a run counts
		}
		return false
	}
	S := append([]uint32(nil), req.TapeS...)
	W := append([]uint32(nil), req.TapeW...)
	if !try(S, W) {
		resp.HarnessError = append(resp.HarnessError, "shrink: the violation does not reproduce from its own tapes")
		return
	}
	S, W = append([]uint32(nil), last.TapeS...), append([]uint32(nil), last.TapeW...)
	trimZeros := func(x []uint32) []uint32 {
		for len(x) > 0 && x[len(x)-1] == 0 {
			x = x[:len(x)-1]
		}
		return x
	}
	S, W = trimZeros(S), trimZeros(W)
	improved := true
	for round := 0; improved && round < 6; round++ {
		improved = false
		// 1. shortest prefix of S (rest zeros)
		lo, hi := 0, len(S)
		for lo < hi {
			mid := (lo + hi) / 2
			if try(S[:mid], W) {
				hi = mid
			} else {
				lo = mid + 1
			}
		}
		if hi < len(S) && try(S[:hi], W) {
			S = trimZeros(append([]uint32(nil), S[:hi]...))
			improved = true
		}
		// 2. zero blocks of S
		for b := len(S) / 2; b >= 1; b /= 2 {
			for i := 0; i+b <= len(S); i += b {
				allZero := true
				for _, v := range S[i : i+b] {
					if v != 0 {
						allZero = false
						break
					}
				}
				if allZero {
					continue
				}
				c := append([]uint32(nil), S...)
				for k := i; k < i+b; k++ {
					c[k] = 0
				}
				if try(c, W) {
					S = trimZeros(c)
					improved = true
				}
			}
		}
		// 3. simplify W values
		for i := range W {
			if W[i] == 0 {
				continue
			}
			for _, cand := range []uint32{0, W[i] / 2, W[i] - 1} {
				if cand >= W[i] {
					continue
				}
				c := append([]uint32(nil), W...)
				c[i] = cand
				if try(S, c) {
					W = c
					improved = true
					break
				}
			}
		}
		W = trimZeros(W)
		// 4. delete chunks of W (drops whole generated operations)
		for _, sz := range []int{8, 4, 2, 1} {
			for i := 0; i+sz <= len(W); {
				c := append(append([]uint32(nil), W[:i]...), W[i+sz:]...)
				if try(S, c) {
					W = c
					improved = true
				} else {
					i++
				}
			}
		}
		W = trimZeros(W)
	}
	// final confirmation with a trace
	r := *req
	r.Trace = true
	res, herr := runOnce(t, req.Scenario, replayCfg(&r, S, W))
	if res != nil {
		// the verdict of the run: its first violation of the property being checked
		for i, v := range res.Violations {
			if req.Property == "" || v.Property == req.Property {
				res.Violations[0], res.Violations[i] = res.Violations[i], res.Violations[0]
				break
			}
		}
	}
	if herr != "" || res == nil || len(res.Violations) == 0 || (res.Violations[0].Fingerprint != req.Target && res.Violations[0].Class != req.Target) {
		d := herr
		if res != nil {
			d += fmt.Sprintf(" outcome=%s steps=%d violations=%d", res.Outcome, res.Steps, len(res.Violations))
			if len(res.Violations) > 0 {
				d += " first=" + res.Violations[0].Fingerprint
			}
			if last != nil {
				d += fmt.Sprintf(" (last accepted candidate: outcome=%s steps=%d hash=%x; this run hash=%x)", last.Outcome, last.Steps, last.TraceHash, res.TraceHash)
			}
		}
		resp.HarnessError = append(resp.HarnessError, "shrink: minimised tapes do not reproduce: "+d)
		return
	}
	v := violOut(0, res, res.Violations[0])
	v.TapeS, v.TapeW = S, W
	v.ShrinkTests = tests
	resp.Violations = append(resp.Violations, v)
	resp.Runs = tests
}
