//go:build go1.22

package zzharness

// C17 - ShardQueue executes every added writer once and flushes it.

import (
	"fmt"

	"github.com/cloudwego/netpoll"
	"github.com/cloudwego/netpoll/mux"
	"verif.local/simrt"
	"verif.local/simrt/vsys"
)

func init() {
	netpoll.RegisterSimScenario(&netpoll.Scenario{Name: "c17_shardqueue", Property: "C17", MaxSteps: 30000, Run: runC17,
		Desc: "mux.ShardQueue over a real connection with a draining peer; 1-4 adder tasks issuing bursts over 1-4 shards (the trigger ring wraps); the worker is a simulator task through the RunTask seam; Close at any step"})
}

const c17Rec = 8 // bytes per getter payload: "G%06d;"+pad

type c17Getter struct {
	id        int
	nilBuf    bool
	calls     int
	callSeq   int
	addInv    int // step at which its Add was invoked
	addRet    int // step at which its Add returned (-1 while in progress)
}

func runC17(e *netpoll.Env) {
	e.Setup(1+e.Intn(2), e.Chance(1, 3))
	conn, peer := e.NewFDPair()
	shards := 1 + e.Intn(4)
	q := mux.NewShardQueue(shards, conn)
	nadders := 1 + e.Intn(4)
	var getters []*c17Getter
	closeInv, closeRet := -1, -1
	var closeErr error
	withClose := e.Chance(1, 2)
	lateAdd := withClose && e.Chance(1, 2)
	addersDone := 0
	for a := 0; a < nadders; a++ {
		bursts := 1 + e.Intn(4)
		simrt.GoNamed(fmt.Sprintf("adder%d", a), false, func() {
			for b := 0; b < bursts; b++ {
				n := 1 + e.Intn(3)
				if e.Chance(1, 8) {
					// a burst larger than anything a shard has room for at first
					n = e.Pick(33, 64, 65, 66, 100, 130)
				}
				var gts []mux.WriterGetter
				var mine []*c17Getter
				for k := 0; k < n; k++ {
					g := &c17Getter{id: len(getters), nilBuf: e.Chance(1, 6), addRet: -1, callSeq: -1}
					getters = append(getters, g)
					mine = append(mine, g)
					gts = append(gts, func() (netpoll.Writer, bool) {
						g.calls++
						g.callSeq = simrt.Step()
						if g.nilBuf {
							return nil, true
						}
						lb := netpoll.NewLinkBuffer()
						buf, _ := lb.Malloc(c17Rec)
						copy(buf, fmt.Sprintf("G%06d;", g.id))
						if g.id%3 == 1 {
							lb.Flush() // some producers hand over a buffer they have already submitted
						}
						return lb, false
					})
				}
				inv := simrt.Step()
				for _, g := range mine {
					g.addInv = inv
				}
				q.Add(gts...)
				ret := simrt.Step()
				for _, g := range mine {
					g.addRet = ret
				}
				if e.Chance(1, 3) {
					simrt.Sleep(int64(e.Pick(1, 2, 5)) * 500000)
				}
			}
			addersDone++
		})
	}
	if withClose {
		simrt.GoNamed("closer", false, func() {
			if e.Bool() {
				simrt.Sleep(int64(e.Pick(1, 2, 5)) * 500000)
			}
			closeInv = simrt.Step()
			closeErr = q.Close()
			closeRet = simrt.Step()
		})
	}
	// the peer drains everything
	var got []byte
	stop := false
	simrt.GoNamed("peer", false, func() {
		for {
			b, err := netpoll.PeerReadSome(peer, 4096)
			if err != nil {
				return
			}
			if b == nil {
				simrt.WaitUntil("peer readable or stop", func() bool { return stop || vsys.HReadable(peer) })
				if stop && !vsys.HReadable(peer) {
					return
				}
				continue
			}
			got = append(got, b...)
		}
	})

	simrt.WaitQuiescentFor(5e9)
	if lateAdd && closeRet >= 0 {
		// an Add after Close has returned must be ignored
		g := &c17Getter{id: len(getters), addRet: -1, callSeq: -1}
		getters = append(getters, g)
		g.addInv = simrt.Step()
		q.Add(func() (netpoll.Writer, bool) { g.calls++; g.callSeq = simrt.Step(); return nil, true })
		g.addRet = simrt.Step()
		simrt.WaitQuiescentFor(5e9)
	}
	e.SetNonTrivial(len(getters) > 1)
	if addersDone != nadders {
		e.Fail("add-returns", "add-stuck", "%d of %d adders are stuck in Add; tasks=%v", nadders-addersDone, nadders, simrt.TaskStates())
	}
	if withClose && closeRet < 0 {
		e.Fail("close-returns", "close-stuck", "Close has not returned at quiescence; tasks=%v", simrt.TaskStates())
	}
	_ = closeErr
	// per getter
	for _, g := range getters {
		switch {
		case g.calls > 1:
			e.Fail("getter-exactly-once", "getter-twice", "getter %d was called %d times", g.id, g.calls)
		case closeInv < 0 || (g.addRet >= 0 && g.addRet < closeInv):
			// added to an active queue: exactly once, and before Close returned
			if g.calls != 1 && g.addRet >= 0 {
				e.Fail("getter-exactly-once", "getter-never-called", "getter %d was added (Add returned at step %d, Close invoked at %d) but never called; the queue is at rest", g.id, g.addRet, closeInv)
			} else if closeRet >= 0 && g.callSeq > closeRet {
				e.Fail("close-waits", "called-after-close-returned", "getter %d was added before Close was invoked but called at step %d, after Close returned at step %d", g.id, g.callSeq, closeRet)
			}
		case closeRet >= 0 && g.addInv > closeRet:
			if g.calls != 0 {
				e.Fail("add-after-close-ignored", "late-getter-called", "getter %d was added after Close had returned and was still called", g.id)
			}
		}
	}
	// every called getter's bytes reached the peer exactly once
	seen := map[int]int{}
	if len(got)%c17Rec != 0 {
		e.Fail("flushed", "torn-record", "the peer received %d bytes, not a multiple of the record size", len(got))
	}
	for i := 0; i+c17Rec <= len(got); i += c17Rec {
		var id int
		if _, err := fmt.Sscanf(string(got[i:i+c17Rec]), "G%06d;", &id); err != nil {
			e.Fail("flushed", "garbled-record", "the peer received a garbled record %q", got[i:i+c17Rec])
			break
		}
		seen[id]++
	}
	for _, g := range getters {
		want := 0
		if g.calls > 0 && !g.nilBuf {
			want = 1
		}
		if seen[g.id] != want && conn.IsActive() {
			e.Fail("flushed", fmt.Sprintf("record-seen-%d-times", seen[g.id]), "getter %d was called %d times (nil buffer: %v); the peer received its record %d times although the queue is at rest", g.id, g.calls, g.nilBuf, seen[g.id])
			break
		}
	}
	stop = true
	conn.Close()
	simrt.WaitQuiescentFor(3e9)
	vsys.HClose(peer)
	e.SetSummary(fmt.Sprintf("shards=%d adders=%d getters=%d close=%v lateAdd=%v", shards, nadders, len(getters), withClose, lateAdd), fmt.Sprint(len(getters), len(got), closeRet >= 0))
	e.Teardown()
	e.CheckDescriptors()
}
