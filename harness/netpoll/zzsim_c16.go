//go:build go1.22

package netpoll

// C16 - stream adapters (NewReader / NewWriter / NewIOReader / NewIOWriter) preserve the byte
// stream for every behaviour the io contracts allow. The injected "faults" are the freedom of
// the io.Reader / io.Writer contracts: short and zero-byte reads, data together with an error,
// short writes with an error. Sequential: no schedule.

import (
	"bytes"
	"errors"
	"fmt"
	"io"
	"strings"

	"verif.local/simrt"
	"verif.local/simrt/valloc/mcache"
)

func init() {
	registerScenario(&Scenario{Name: "zc_reader", Property: "C16", MaxSteps: 100000, Run: runZCReader,
		Desc: "NewReader over a scripted io.Reader (chunk sizes 0..>4KB, error with or without data at any position) against generated Reader calls"})
	registerScenario(&Scenario{Name: "zc_writer", Property: "C16", MaxSteps: 100000, Run: runZCWriter,
		Desc: "NewWriter over a scripted io.Writer (short writes at any boundary, errors) against generated Writer calls and repeated Flush; NewIOReader/NewIOWriter over a LinkBuffer"})
}

var errScripted = errors.New("scripted source error")

type scriptedReader struct {
	e        *Env
	stream   int
	pos      int // bytes produced so far
	limit    int // the source ends (with its final error) after this many bytes
	finalErr error
	zeros    int
	calls    int
	log      []string
	ended    bool
}

func (r *scriptedReader) Read(p []byte) (int, error) {
	r.calls++
	e := r.e
	left := r.limit - r.pos
	if left == 0 {
		r.ended = true
		r.log = append(r.log, fmt.Sprintf("Read(%d)=0,%v", len(p), r.finalErr))
		return 0, r.finalErr
	}
	// zero-byte read with nil error: allowed by io.Reader ("discouraged"), bounded here
	if r.zeros < 3 && e.Chance(1, 8) {
		r.zeros++
		r.log = append(r.log, fmt.Sprintf("Read(%d)=0,nil", len(p)))
		simrt.CountFault("zero_read")
		return 0, nil
	}
	n := 0
	switch e.Intn(5) {
	case 0:
		n = 1
	case 1:
		n = len(p)
	case 2:
		n = 1 + e.Intn(16)
	default:
		n = 1 + e.Intn(len(p))
	}
	if n > len(p) {
		n = len(p)
	}
	if n < len(p) {
		simrt.CountFault("short_read")
	}
	var err error
	if n >= left {
		n = left
		// the last data may come together with the final error, or the error comes alone next time
		if e.Bool() {
			err = r.finalErr
			r.ended = true
			simrt.CountFault("data_with_error")
		}
	}
	copy(p, streamBytes(r.stream, r.pos, n))
	r.pos += n
	r.log = append(r.log, fmt.Sprintf("Read(%d)=%d,%v", len(p), n, err))
	return n, err
}

func c16fail(e *Env, oracle, class string, ops []string, format string, a ...interface{}) {
	e.Fail(oracle, class, "%s\nops: %s", fmt.Sprintf(format, a...), strings.Join(ops, "; "))
}

func runZCReader(e *Env) {
	e.Setup(1, false)
	LinkBufferCap = e.Pick(16, 128, 4096)
	mcache.Reset(e.Chance(1, 3))
	const stream = 16
	src := &scriptedReader{e: e, stream: stream}
	src.limit = e.Pick(0, 1, 5, 40, 300, 4095, 4096, 4097, 9000, 20000)
	if e.Bool() {
		src.finalErr = io.EOF
	} else {
		src.finalErr = errScripted
	}
	rd := NewReader(src)
	consumed := 0
	var ops []string
	nops := 1 + e.Intn(10)
	var live [][2][]byte // result, snapshot
	for i := 0; i < nops; i++ {
		kind := []string{"Next", "Peek", "Skip", "ReadBinary", "ReadString", "ReadByte", "Slice", "Release", "Until"}[e.Intn(9)]
		avail := src.limit - consumed
		n := 0
		switch e.Intn(6) {
		case 0:
			n = avail
		case 1:
			n = avail + 1
		case 2:
			n = 1
		default:
			n = 1 + e.Intn(1+e.Pick(3, 30, 500, 5000))
		}
		if kind == "ReadByte" {
			n = 1
		}
		before := rd.Len()
		var got []byte
		var err error
		switch kind {
		case "Next":
			got, err = rd.Next(n)
		case "Peek":
			got, err = rd.Peek(n)
		case "Skip":
			err = rd.Skip(n)
		case "ReadBinary":
			got, err = rd.ReadBinary(n)
		case "ReadString":
			var s string
			s, err = rd.ReadString(n)
			got = []byte(s)
		case "ReadByte":
			var b byte
			b, err = rd.ReadByte()
			got = []byte{b}
		case "Slice":
			var r2 Reader
			r2, err = rd.Slice(n)
			if err == nil {
				live = nil
				p, _ := r2.Next(r2.Len())
				got = append([]byte(nil), p...)
				r2.Release()
			}
		case "Release":
			rd.Release()
			live = nil
			ops = append(ops, "Release")
			continue
		case "Until":
			// only looks at what is buffered
			buf := streamBytes(stream, consumed, rd.Len())
			if len(buf) == 0 {
				continue
			}
			delim := buf[e.Intn(len(buf))]
			got, err = rd.Until(delim)
			ops = append(ops, fmt.Sprintf("Until(%q)=%d,%s", delim, len(got), errName(err)))
			idx := bytes.IndexByte(buf, delim)
			if err != nil || len(got) != idx+1 || checkStream(stream, consumed, got) >= 0 {
				c16fail(e, "reader-content", "reader/content/Until", ops, "Until(%q) returned %d bytes, err %v; want %d bytes", delim, len(got), err, idx+1)
				return
			}
			consumed += len(got)
			live = append(live, [2][]byte{got, append([]byte(nil), got...)})
			continue
		}
		ops = append(ops, fmt.Sprintf("%s(%d)=%d,%s [src %s]", kind, n, len(got), errName(err), strings.Join(src.log, " ")))
		src.log = nil
		if err == nil {
			if kind != "Skip" && (len(got) != n || checkStream(stream, consumed, got) >= 0) {
				c16fail(e, "reader-content", "reader/content/"+kind, ops, "%s(%d) returned %d bytes; first byte differing from the source stream at %d", kind, n, len(got), checkStream(stream, consumed, got))
				return
			}
			if n > avail {
				c16fail(e, "reader-content", "reader/invented-data", ops, "%s(%d) succeeded but the source only produces %d more bytes", kind, n, avail)
				return
			}
			if kind != "Peek" {
				consumed += n
			}
			if kind == "Next" || kind == "Peek" {
				live = append(live, [2][]byte{got, append([]byte(nil), got...)})
			}
		} else {
			// an error is only legitimate when the source reported one (or ran dry)
			if !src.ended {
				c16fail(e, "reader-error", "reader/spurious-error", ops, "%s(%d) failed with %v although the source has not reported an error", kind, n, err)
				return
			}
			if src.finalErr == io.EOF && !isErr(err, ErrEOF) {
				c16fail(e, "reader-error", "reader/eof-mapping", ops, "source ended with io.EOF but %s returned %v", kind, err)
				return
			}
			if src.finalErr == errScripted && err != errScripted {
				c16fail(e, "reader-error", "reader/error-identity", ops, "source failed with its own error but %s returned %v", kind, err)
				return
			}
			if rd.Len() < before {
				c16fail(e, "reader-content", "reader/error-consumed", ops, "failed %s(%d) consumed data: Len %d -> %d", kind, n, before, rd.Len())
				return
			}
		}
		// conservation: what is buffered is exactly what the source produced and nobody consumed
		if rd.Len() != src.pos-consumed {
			c16fail(e, "reader-conservation", "reader/conservation", ops, "Len() = %d but the source produced %d and %d were consumed", rd.Len(), src.pos, consumed)
			return
		}
		for _, l := range live {
			if !bytes.Equal(l[0], l[1]) {
				c16fail(e, "reader-content", "reader/live-result", ops, "an earlier zero-copy result changed before Release")
				return
			}
		}
	}
	// drain: everything buffered must still be the source's bytes, in order
	if l := rd.Len(); l > 0 {
		got, err := rd.ReadBinary(l)
		if err != nil || checkStream(stream, consumed, got) >= 0 {
			c16fail(e, "reader-content", "reader/drain", ops, "draining %d buffered bytes: err %v, mismatch at %d", l, err, checkStream(stream, consumed, got))
			return
		}
	}
	rd.Release()
	e.nonTriv = src.calls > 1
	e.Summary = fmt.Sprintf("limit=%d final=%v cap=%d ops: %s", src.limit, src.finalErr, LinkBufferCap, strings.Join(ops, "; "))
	if len(e.Summary) > 700 {
		e.Summary = e.Summary[:700] + "..."
	}
	e.State = fmt.Sprintf("%d/%d/%d", src.calls, consumed, len(ops))
}

// ---------------------------------------------------------------------------------------------

type scriptedWriter struct {
	e     *Env
	got   []byte
	calls int
	log   []string
	fail  bool
}

func (w *scriptedWriter) Write(p []byte) (int, error) {
	w.calls++
	e := w.e
	n := len(p)
	var err error
	if w.fail && len(p) > 0 {
		switch e.Intn(5) {
		case 0:
			n, err = 0, errScripted
		case 1:
			n, err = e.Intn(len(p)), errScripted // short write: must come with an error
		case 2:
			n, err = len(p), errScripted // everything taken, error anyway
		}
		if err != nil {
			simrt.CountFault("short_write")
		}
	}
	w.got = append(w.got, p[:n]...)
	w.log = append(w.log, fmt.Sprintf("Write(%d)=%d,%v", len(p), n, err))
	return n, err
}

func runZCWriter(e *Env) {
	e.Setup(1, false)
	LinkBufferCap = e.Pick(16, 128, 4096)
	mcache.Reset(e.Chance(1, 3))
	const stream = 17
	var ops []string
	if e.Chance(1, 4) {
		// NewIOWriter / NewIOReader over a LinkBuffer
		lb := NewLinkBuffer()
		iow := NewIOWriter(lb)
		ior := NewIOReader(lb)
		wpos, rpos := 0, 0
		for i := 0; i < 1+e.Intn(10); i++ {
			if e.Bool() {
				n := e.Pick(0, 1, 7, 100, 4096, 5000)
				k, err := iow.Write(streamBytes(stream, wpos, n))
				ops = append(ops, fmt.Sprintf("io.Write(%d)=%d,%v", n, k, err))
				if err != nil || k != n {
					c16fail(e, "iowriter", "iowriter/count", ops, "Write(%d) = %d, %v", n, k, err)
					return
				}
				wpos += n
			} else {
				p := make([]byte, e.Pick(1, 3, 64, 4096, 9000))
				k, err := ior.Read(p)
				ops = append(ops, fmt.Sprintf("io.Read(%d)=%d,%v", len(p), k, err))
				want := wpos - rpos
				if want > len(p) {
					want = len(p)
				}
				if want == 0 {
					if err != io.EOF || k != 0 {
						c16fail(e, "ioreader", "ioreader/empty", ops, "Read on an empty buffer = %d, %v; want 0, io.EOF", k, err)
						return
					}
					continue
				}
				if err != nil || k != want || checkStream(stream, rpos, p[:k]) >= 0 {
					c16fail(e, "ioreader", "ioreader/content", ops, "Read(%d) = %d, %v; want %d bytes of the stream at %d", len(p), k, err, want, rpos)
					return
				}
				rpos += k
			}
			if lb.Len() != wpos-rpos {
				c16fail(e, "ioreader", "io/conservation", ops, "Len() = %d, written %d read %d", lb.Len(), wpos, rpos)
				return
			}
		}
		e.nonTriv = true
		e.Summary = "io adapters: " + strings.Join(ops, "; ")
		e.State = fmt.Sprint(len(ops), wpos, rpos)
		return
	}
	sink := &scriptedWriter{e: e, fail: e.Chance(2, 3)}
	w := NewWriter(sink)
	var pending, flushed []byte // model: bytes written but not flushed / bytes submitted by Flush calls so far
	wpos := 0
	gen := func(n int) []byte { b := streamBytes(stream, wpos, n); wpos += n; return b }
	nops := 1 + e.Intn(12)
	for i := 0; i < nops; i++ {
		n := e.Pick(0, 1, 2, 17, 100, 1000, 4096, 4097, 9000)
		switch e.Intn(7) {
		case 0:
			buf, _ := w.Malloc(n)
			d := gen(n)
			copy(buf, d)
			pending = append(pending, d...)
			ops = append(ops, fmt.Sprintf("Malloc(%d)", n))
		case 1:
			d := gen(n)
			w.WriteBinary(d)
			pending = append(pending, d...)
			ops = append(ops, fmt.Sprintf("WriteBinary(%d)", n))
		case 2:
			d := gen(n)
			w.WriteString(string(d))
			pending = append(pending, d...)
			ops = append(ops, fmt.Sprintf("WriteString(%d)", n))
		case 3:
			d := gen(1)
			w.WriteByte(d[0])
			pending = append(pending, d...)
			ops = append(ops, "WriteByte")
		case 4:
			if len(pending) == 0 {
				continue
			}
			k := e.Intn(len(pending) + 1)
			w.MallocAck(k)
			pending = pending[:k]
			ops = append(ops, fmt.Sprintf("MallocAck(%d)", k))
		default:
			flushed = append(flushed, pending...)
			pending = nil
			err := w.Flush()
			ops = append(ops, fmt.Sprintf("Flush=%v [sink %s]", err, strings.Join(sink.log, " ")))
			sink.log = nil
		}
		if w.MallocLen() != len(pending) {
			c16fail(e, "writer-count", "writer/malloclen", ops, "MallocLen() = %d, model %d", w.MallocLen(), len(pending))
			return
		}
		// exactly once, in order: the sink holds a prefix of everything flushed
		if len(sink.got) > len(flushed) || !bytes.Equal(sink.got, flushed[:len(sink.got)]) {
			c16fail(e, "writer-stream", "writer/stream", ops, "the sink received %d bytes that are not a prefix of the %d flushed bytes (first difference at %d)", len(sink.got), len(flushed), firstDiff(sink.got, flushed))
			return
		}
	}
	// the sink recovers: after faults stop, repeated Flush delivers the rest exactly once
	sink.fail = false
	flushed = append(flushed, pending...)
	pending = nil
	for k := 0; k < 3; k++ {
		if err := w.Flush(); err != nil {
			c16fail(e, "writer-stream", "writer/flush-error", ops, "Flush into a healthy sink returned %v", err)
			return
		}
	}
	ops = append(ops, "Flush x3 (healthy sink)")
	if !bytes.Equal(sink.got, flushed) {
		c16fail(e, "writer-stream", "writer/final", ops, "after the sink recovered it holds %d bytes, %d were flushed (first difference at %d)", len(sink.got), len(flushed), firstDiff(sink.got, flushed))
		return
	}
	e.nonTriv = sink.calls > 1
	e.Summary = "writer: " + strings.Join(ops, "; ")
	if len(e.Summary) > 700 {
		e.Summary = e.Summary[:700] + "..."
	}
	e.State = fmt.Sprint(sink.calls, len(flushed), len(ops))
}
