//go:build go1.22

package netpoll

// C01 / C02 / C03 - LinkBuffer against a FIFO byte-queue model, with live-result snapshots
// and the allocator ledger. Sequential object: the simulator owns the allocator (garbage
// content, poison on free, adversarial reuse) and the operation history; there is no schedule.

import (
	"bytes"
	"fmt"
	"strings"
	"unsafe"

	"verif.local/simrt"
	"verif.local/simrt/valloc/mcache"
	"verif.local/simrt/vsync"
)

func init() {
	registerScenario(&Scenario{Name: "lb_seq", Property: "C01", MaxSteps: 200000, Run: runLBSeq,
		Desc: "seeded Writer/Reader operation sequences on a LinkBuffer (with appended buffers and Slice readers) against a FIFO byte-queue model; every live zero-copy result re-examined after every operation; pool ledger"})
	registerScenario(&Scenario{Name: "lb_poller", Property: "C01", MaxSteps: 200000, Run: runLBPoller,
		Desc: "the book/bookAck/resetTail protocol of the poller interleaved with Reader calls, against the same model"})
}

type liveRes struct {
	mem  []byte
	snap []byte
	what string
	opNo int
}

type ownedMem struct {
	mem  []byte
	snap []byte
	what string
}

type lbReader struct {
	name     string
	buf      *LinkBuffer
	readable []byte
	live     []*liveRes
	isSlice  bool
	dead     bool
}

type lbState struct {
	e         *Env
	root      *lbReader
	pending   []byte
	uncertain bool
	kids      []*lbReader
	owned     []ownedMem
	wpos      int
	wdAvail   int
	usedWB    bool
	opNo      int
	ops       []string
	crossed   bool
	split     bool // a WriteDirect split a node in this run
	poolDup   int
}

const lbStream = 11

func (s *lbState) gen(n int) []byte {
	b := streamBytes(lbStream, s.wpos, n)
	s.wpos += n
	return b
}

// userSlice returns caller-owned memory with a power-of-two capacity (so that a wrong Free of
// it would be accepted by the real pool).
func (s *lbState) userSlice(n int) []byte {
	c := 1
	for c < n {
		c <<= 1
	}
	m := make([]byte, n, c)
	copy(m, s.gen(n))
	return m
}

func (s *lbState) own(mem []byte, what string) {
	s.owned = append(s.owned, ownedMem{mem: mem, snap: append([]byte(nil), mem...), what: what})
}

func (s *lbState) logOp(format string, a ...interface{}) {
	s.opNo++
	if len(s.ops) < 80 {
		s.ops = append(s.ops, fmt.Sprintf(format, a...))
	}
}

func (s *lbState) opsString() string { return strings.Join(s.ops, "; ") }

// pattern abstracts the operation history for fingerprints: the last few operation names.
func (s *lbState) pattern(k int) string {
	var names []string
	for i := len(s.ops) - 1; i >= 0 && len(names) < k; i-- {
		n := s.ops[i]
		if j := strings.IndexAny(n, "( "); j >= 0 {
			n = n[:j]
		}
		names = append([]string{n}, names...)
	}
	return strings.Join(names, ">")
}

// fail reports a violation. The fingerprint is the oracle-level class plus the call site the
// oracle names; it deliberately does not contain the operation sequence (minimised sequences
// keep filler operations, which would make fingerprints unstable across seeds).
func (s *lbState) fail(prop, oracle, class, format string, a ...interface{}) {
	simrt.FailC(prop, oracle, prop+"/"+class, prop+"/"+class, "%s\nops: %s", fmt.Sprintf(format, a...), s.opsString())
}

// addLive registers a zero-copy result.
func (s *lbState) addLive(r *lbReader, mem []byte, what string) {
	if len(mem) == 0 {
		return
	}
	r.live = append(r.live, &liveRes{mem: mem, snap: append([]byte(nil), mem...), what: what, opNo: s.opNo})
}

// checkLive re-examines every live result of every reader.
func (s *lbState) checkLive() bool {
	all := append([]*lbReader{s.root}, s.kids...)
	for _, r := range all {
		for _, l := range r.live {
			if !bytes.Equal(l.mem, l.snap) {
				state := "overwritten"
				if b := mcache.Lookup(&l.mem[0]); b != nil && b.Free {
					state = "returned to the pool at " + simrt.SiteString(b.FSite)
				} else if l.mem[0] == mcache.Poison {
					state = "returned to the pool"
				} else if l.mem[0] == mcache.Garbage {
					state = "handed out again by the pool"
				}
				s.fail("C02", "live-result-intact", "live-result/"+l.what,
					"result of %s (op %d, %d bytes) on reader %s changed before its reader was released: memory %s", l.what, l.opNo, len(l.mem), r.name, state)
				return false
			}
		}
	}
	for _, o := range s.owned {
		if !bytes.Equal(o.mem, o.snap) {
			s.fail("C03", "caller-memory-untouched", "caller-memory/"+strings.Fields(o.what)[0], "caller-owned memory (%s, %d bytes) was modified", o.what, len(o.mem))
			return false
		}
	}
	return true
}

func (s *lbState) checkLedger() bool {
	for _, ev := range mcache.Events {
		site := simrt.SiteString(ev.Site)
		fn := site
		if i := strings.LastIndex(site, " "); i >= 0 {
			fn = site[i+1:]
		}
		if ev.Kind == "double-free" {
			s.fail("C03", "block-returned-once", "double-free/"+fn, "pool block #%d (cap %d) returned twice: at %s, earlier at %s", ev.Block, ev.Cap, site, simrt.SiteString(ev.Prev))
		} else {
			s.fail("C03", "only-pool-memory-returned", "foreign-free/"+fn, "memory the pool never handed out (cap %d) was returned to it at %s", ev.Cap, site)
		}
		return false
	}
	if s.poolDup > 0 {
		s.fail("C03", "node-returned-once", "node-double-put", "a buffer node was put into the node pool while already in it (%d times)", s.poolDup)
		return false
	}
	// a block is returned only after the data in it has been consumed and released by every reader
	// sharing it: no unread byte of a live reader may lie in a block that is back in the pool
	all := append([]*lbReader{s.root}, s.kids...)
	for _, r := range all {
		b := r.buf
		if b == nil || b.read == nil || r.dead {
			continue
		}
		steps := 0
		for n := b.read; n != nil && steps < 100000; n, steps = n.next, steps+1 {
			if n.Len() > 0 && n.off < len(n.buf) {
				if blk := mcache.Lookup(&n.buf[n.off]); blk != nil && blk.Free {
					fs := simrt.SiteString(blk.FSite)
					fn := fs
					if i := strings.LastIndex(fs, " "); i >= 0 {
						fn = fs[i+1:]
					}
					s.fail("C03", "returned-after-consumed", "premature-free/"+fn, "%d unread bytes of %s lie in pool block #%d (cap %d), which was returned to the pool at %s", n.Len(), r.name, blk.Serial, blk.Cap, fs)
					return false
				}
			}
			if n == b.flush {
				break
			}
		}
	}
	return true
}

// structural walk of a LinkBuffer: chain order, no cycle, length consistency
func (s *lbState) checkStructure(r *lbReader) bool {
	b := r.buf
	if b.head == nil {
		return true
	}
	sum, seenRead, seenFlush := 0, false, false
	steps := 0
	for n := b.head; n != nil; n = n.next {
		steps++
		if steps > 100000 {
			s.fail("C01", "structure", "structure/cycle", "node chain of %s has a cycle", r.name)
			return false
		}
		if n == b.read {
			seenRead = true
		}
		if seenRead && !seenFlush {
			sum += n.Len()
		}
		if n == b.flush {
			seenFlush = true
			if !seenRead {
				s.fail("C01", "structure", "structure/order", "flush cursor precedes read cursor in %s", r.name)
				return false
			}
		}
		if n == b.flush && b.flush == nil {
			break
		}
	}
	if !seenRead {
		s.fail("C01", "structure", "structure/read-unlinked", "read cursor of %s is not on the chain from head", r.name)
		return false
	}
	if !s.uncertain && !r.isSlice && sum != b.Len() {
		s.fail("C01", "structure", "structure/len-sum", "sum of node lengths read..flush = %d but Len() = %d on %s", sum, b.Len(), r.name)
		return false
	}
	return true
}

func (s *lbState) checkCounts() bool {
	if !s.uncertain {
		if got := s.root.buf.Len(); got != len(s.root.readable) {
			s.fail("C01", "len-equals-model", "len", "Len() = %d, model has %d readable bytes", got, len(s.root.readable))
			return false
		}
	}
	if got := s.root.buf.MallocLen(); got != len(s.pending) {
		s.fail("C01", "malloclen-equals-model", "malloclen", "MallocLen() = %d, model has %d pending bytes", got, len(s.pending))
		return false
	}
	for _, k := range s.kids {
		if k.dead {
			continue
		}
		if got := k.buf.Len(); got != len(k.readable) {
			s.fail("C01", "len-equals-model", "len/slice", "slice reader %s Len() = %d, model %d", k.name, got, len(k.readable))
			return false
		}
	}
	return true
}

// size picks a boundary-heavy size.
func (s *lbState) size(e *Env, big bool) int {
	switch e.Intn(12) {
	case 0:
		return 0
	case 1, 2:
		return 1
	case 3:
		return e.Pick(2, 3, 7, 15, 16, 17, 63, 64, 65)
	case 4:
		return e.Pick(255, 256, 257, 1023, 1024, 1025)
	case 5:
		return e.Pick(4095, 4096, 4097)
	case 6:
		if big {
			return e.Pick(8191, 8192, 8193, 8192*2+1)
		}
		return 1 + e.Intn(64)
	case 7:
		if big && e.Chance(1, 40) {
			return e.Pick(mallocMax-1, mallocMax, mallocMax+1)
		}
		return 1 + e.Intn(300)
	default:
		return 1 + e.Intn(40)
	}
}

// readSize picks a size relative to what the reader holds.
func (s *lbState) readSize(e *Env, r *lbReader) int {
	l := len(r.readable)
	nodeLeft := 0
	if r.buf.read != nil {
		nodeLeft = r.buf.read.Len()
	}
	switch e.Intn(10) {
	case 0:
		return l + 1
	case 1:
		return l
	case 2:
		if l > 1 {
			return l - 1
		}
		return 1
	case 3:
		return nodeLeft
	case 4:
		return nodeLeft + 1
	case 5:
		if nodeLeft > 1 {
			return nodeLeft - 1
		}
		return 1
	case 6:
		return 1
	case 7:
		return 0
	default:
		if l > 0 {
			return 1 + e.Intn(l)
		}
		return 1
	}
}

func lbSetup(e *Env) *lbState {
	e.Setup(1, false)
	LinkBufferCap = e.Pick(16, 64, 128, 1024, 4096)
	reuse := e.Chance(1, 3)
	mcache.Reset(reuse)
	vsync.PoolReuse = e.Chance(2, 3)
	s := &lbState{e: e}
	vsync.OnDoublePut = func(x interface{}) { s.poolDup++ }
	return s
}

func runLBSeq(e *Env) {
	s := lbSetup(e)
	var initial []int
	switch e.Intn(4) {
	case 0:
	case 1:
		initial = []int{0}
	default:
		initial = []int{e.Pick(1, 16, 64, 100, 1024, 4096, 8192, 16384)}
	}
	s.root = &lbReader{name: "root", buf: NewLinkBuffer(initial...)}
	nops := 1 + e.Intn(12)
	if e.Chance(1, 6) {
		nops = 12 + e.Intn(48)
	}
	// swarm: a random subset of operation kinds is enabled in this run
	enabled := map[string]bool{}
	kinds := []string{"Malloc", "WriteBinary", "WriteString", "WriteByte", "WriteDirect", "MallocAck", "Append", "Flush", "Flush",
		"Next", "Peek", "Skip", "Until", "ReadString", "ReadBinary", "ReadByte", "Slice", "Release", "readCopy", "Bytes", "GetBytes", "kid"}
	for _, k := range kinds {
		if e.Chance(2, 3) {
			enabled[k] = true
		}
	}
	enabled["Flush"] = true
	var avail []string
	for _, k := range kinds {
		if enabled[k] {
			avail = append(avail, k)
		}
	}
	e.Summary = fmt.Sprintf("cap=%d initial=%v reuse=%v poolreuse=%v", LinkBufferCap, initial, mcache.Reuse, vsync.PoolReuse)
	ok := true
	for i := 0; i < nops && ok; i++ {
		k := avail[e.Intn(len(avail))]
		ok = s.step(e, k)
		if ok {
			ok = s.checkCounts() && s.checkLive() && s.checkLedger() && s.checkStructure(s.root)
		}
	}
	if ok {
		s.finish()
	}
	e.nonTriv = s.crossed
	e.Summary += " ops: " + s.opsString()
	e.State = s.pattern(6)
	vsync.OnDoublePut = nil
}

// finish drains everything, releases all readers and closes the buffer.
func (s *lbState) finish() {
	root := s.root
	if !s.uncertain {
		s.logOp("Flush")
		root.buf.Flush()
		root.readable = append(root.readable, s.pending...)
		s.pending = nil
		if !(s.checkCounts() && s.checkLive()) {
			return
		}
		// read back everything that is left: it must be the model's content
		if l := len(root.readable); l > 0 {
			s.logOp("ReadBinary(%d) [drain]", l)
			got, err := root.buf.ReadBinary(l)
			if err != nil || !bytes.Equal(got, root.readable) {
				s.fail("C01", "read-equals-model", "content/drain", "final drain of %d bytes: err=%v, first difference at %d", l, err, firstDiff(got, root.readable))
				return
			}
			root.readable = nil
		}
	}
	for _, k := range s.kids {
		if !k.dead {
			s.logOp("%s.Release", k.name)
			k.buf.Release()
			k.live = nil
			k.dead = true
			if !s.checkLive() {
				return
			}
		}
	}
	s.logOp("Release")
	root.buf.Release()
	root.live = nil
	s.logOp("Close")
	root.buf.Close()
	if !s.checkLive() {
		return
	}
	s.checkLedger()
}

func firstDiff(a, b []byte) int {
	for i := 0; i < len(a) && i < len(b); i++ {
		if a[i] != b[i] {
			return i
		}
	}
	if len(a) != len(b) {
		if len(a) < len(b) {
			return len(a)
		}
		return len(b)
	}
	return -1
}

func ptrOf(b []byte) uintptr {
	if cap(b) == 0 {
		return 0
	}
	return uintptr(unsafe.Pointer(unsafe.SliceData(b)))
}

// step performs one operation of kind k; it returns false when a violation was reported.
func (s *lbState) step(e *Env, k string) bool {
	root := s.root
	b := root.buf
	switch k {
	case "Malloc":
		return s.applyMalloc(s.size(e, true))
	case "WriteByte":
		d := s.gen(1)
		s.logOp("WriteByte")
		b.WriteByte(d[0])
		s.pending = append(s.pending, d...)
		s.wdAvail++
	case "WriteBinary", "WriteString":
		n := s.size(e, true)
		mem := s.userSlice(n)
		s.logOp("%s(%d)", k, n)
		var wn int
		var err error
		if k == "WriteBinary" {
			wn, err = b.WriteBinary(mem)
		} else {
			wn, err = b.WriteString(unsafe.String(unsafe.SliceData(mem), n))
		}
		if err != nil || wn != n {
			s.fail("C01", "write-count", "write/count", "%s(%d) returned %d, %v", k, n, wn, err)
			return false
		}
		s.own(mem, k+" argument")
		s.pending = append(s.pending, mem...)
		s.usedWB = true
		s.wdAvail = 0
		if n > BinaryInplaceThreshold {
			s.crossed = true
		}
	case "WriteDirect":
		if s.usedWB || s.wdAvail == 0 {
			return true
		}
		remain := e.Intn(s.wdAvail + 1)
		// known finding (DESIGN.md, C02): the two halves of a node split by WriteDirect do not share
		// ownership, so results and Slice readers into the first half are unprotected. The random
		// generator only splits when nothing refers to the buffer; lb_known holds the witnesses.
		if remain > 0 && s.anyLive() {
			remain = 0
		}
		return s.applyWriteDirect(1+s.size(e, true), remain)
	case "MallocAck":
		n := 0
		if len(s.pending) > 0 {
			switch e.Intn(4) {
			case 0:
				n = 0
			case 1:
				n = len(s.pending)
			default:
				n = e.Intn(len(s.pending) + 1)
			}
		}
		s.logOp("MallocAck(%d of %d)", n, len(s.pending))
		if err := b.MallocAck(n); err != nil {
			s.fail("C01", "mallocack-error", "mallocack/error", "MallocAck(%d) returned %v", n, err)
			return false
		}
		s.pending = s.pending[:n]
		s.wdAvail = 0
		s.usedWB = true // no WriteDirect until the next Flush
	case "Flush":
		return s.applyFlush()
	case "Append":
		// donor built by a short sub-sequence; flushed donors are legal but must be followed by a
		// Flush before anything is read ("you must actively submit before read the data")
		donor := NewLinkBuffer(e.Pick(0, 0, 16, 4096))
		var dPend, dRead []byte
		cnt := 1 + e.Intn(3)
		desc := ""
		for j := 0; j < cnt; j++ {
			n := s.size(e, true)
			if e.Bool() {
				buf, _ := donor.Malloc(n)
				d := s.gen(n)
				copy(buf, d)
				dPend = append(dPend, d...)
				desc += fmt.Sprintf("M%d ", n)
			} else {
				mem := s.userSlice(n)
				donor.WriteBinary(mem)
				s.own(mem, "WriteBinary argument (appended buffer)")
				dPend = append(dPend, mem...)
				desc += fmt.Sprintf("W%d ", n)
			}
		}
		flushed := e.Chance(1, 4)
		if flushed {
			donor.Flush()
			dRead, dPend = dPend, nil
			desc += "F"
			// its producer may also have read part of it (and not released what it read): only the
			// unread rest is handed over
			if len(dRead) > 1 && e.Bool() {
				k := 1 + e.Intn(len(dRead)-1)
				switch e.Intn(3) {
				case 0:
					donor.Skip(k)
					desc += fmt.Sprintf(" Skip%d", k)
				case 1:
					donor.Next(k)
					desc += fmt.Sprintf(" Next%d", k)
				case 2:
					donor.Peek(k)
					donor.readCopy(make([]byte, k))
					desc += fmt.Sprintf(" Peek+Read%d", k)
				}
				dRead = dRead[k:]
			}
		}
		s.logOp("Append[%s]", strings.TrimSpace(desc))
		if err := b.Append(donor); err != nil {
			s.fail("C01", "append-error", "append/error", "Append returned %v", err)
			return false
		}
		s.pending = append(s.pending, dRead...)
		s.pending = append(s.pending, dPend...)
		if flushed && len(dRead) > 0 {
			s.uncertain = true
			// MallocLen does not count the donor's submitted bytes: flush at once to stay inside the contract
			s.logOp("Flush")
			b.Flush()
			root.readable = append(root.readable, s.pending...)
			s.pending = nil
			s.uncertain = false
		}
		s.wdAvail, s.usedWB = 0, true
		s.crossed = true
	case "kid":
		// an operation on a Slice reader
		var alive []*lbReader
		for _, kd := range s.kids {
			if !kd.dead {
				alive = append(alive, kd)
			}
		}
		if len(alive) == 0 {
			return true
		}
		kd := alive[e.Intn(len(alive))]
		if e.Chance(1, 4) {
			s.logOp("%s.Release", kd.name)
			kd.buf.Release()
			kd.live = nil
			kd.dead = true
			return true
		}
		return s.readOp(e, kd, []string{"Next", "Peek", "Skip", "ReadBinary", "ReadByte", "ReadString", "Until", "Slice"}[e.Intn(8)])
	default:
		if s.uncertain {
			return true
		}
		return s.readOp(e, root, k)
	}
	return true
}

func (s *lbState) anyLive() bool {
	if len(s.root.live) > 0 {
		return true
	}
	for _, k := range s.kids {
		if !k.dead {
			return true
		}
	}
	return false
}

func (s *lbState) applyMalloc(n int) bool {
	b := s.root.buf
	s.logOp("Malloc(%d)", n)
	buf, err := b.Malloc(n)
	if err != nil || len(buf) != n {
		s.fail("C01", "malloc-size", "malloc/size", "Malloc(%d) returned %d bytes, err %v", n, len(buf), err)
		return false
	}
	d := s.gen(n)
	copy(buf, d)
	s.pending = append(s.pending, d...)
	s.wdAvail += n
	if n > LinkBufferCap {
		s.crossed = true
	}
	return true
}

func (s *lbState) applyWriteDirect(n, remain int) bool {
	b := s.root.buf
	mem := s.userSlice(n)
	s.logOp("WriteDirect(%d, remain %d)", n, remain)
	if err := b.WriteDirect(mem, remain); err != nil {
		s.fail("C01", "write-count", "writedirect/error", "WriteDirect returned %v", err)
		return false
	}
	s.own(mem, "WriteDirect argument")
	at := len(s.pending) - remain
	np := append([]byte(nil), s.pending[:at]...)
	np = append(np, mem...)
	np = append(np, s.pending[at:]...)
	s.pending = np
	s.wdAvail = remain
	if remain == 0 {
		// a further WriteDirect would have to land exactly behind this extra buffer
		s.usedWB = true
	} else {
		s.split = true
	}
	s.crossed = true
	return true
}

func (s *lbState) applyFlush() bool {
	s.logOp("Flush")
	s.root.buf.Flush()
	s.root.readable = append(s.root.readable, s.pending...)
	s.pending = nil
	s.wdAvail, s.usedWB, s.uncertain = 0, false, false
	return true
}

func (s *lbState) expectShort(r *lbReader, op string, n int, err error, got int) bool {
	if err == nil {
		s.fail("C01", "short-read-fails", "short/"+op, "%s.%s(%d) succeeded (%d bytes) with only %d readable", r.name, op, n, got, len(r.readable))
		return false
	}
	if r.buf.Len() != len(r.readable) {
		s.fail("C01", "short-read-consumes-nothing", "short-consumed/"+op, "%s.%s(%d) failed but Len went from %d to %d", r.name, op, n, len(r.readable), r.buf.Len())
		return false
	}
	return true
}

func (s *lbState) content(r *lbReader, op string, got []byte, n int) bool {
	if len(got) != n || !bytes.Equal(got, r.readable[:n]) {
		s.fail("C01", "read-equals-model", "content/"+op, "%s.%s(%d) returned %d bytes, first difference from the model at %d", r.name, op, n, len(got), firstDiff(got, r.readable))
		return false
	}
	return true
}

func (s *lbState) readOp(e *Env, r *lbReader, k string) bool {
	// known finding (see DESIGN.md, C02): readCopy releases the remainder of a node split by
	// WriteDirect while the other half may still be exposed. The random generator stays away
	// from that combination; the scripted witness in lb_known reports it.
	if (k == "readCopy" || k == "Slice") && s.split && !r.isSlice {
		return true
	}
	return s.readOpN(e, r, k, s.readSize(e, r))
}

func (s *lbState) readOpN(e *Env, r *lbReader, k string, n int) bool {
	b := r.buf
	short := n > len(r.readable)
	if n > 0 && r.buf.read != nil && n > r.buf.read.Len() && !short {
		s.crossed = true
	}
	switch k {
	case "Next":
		s.logOp("%s.Next(%d)", r.name, n)
		p, err := b.Next(n)
		if short {
			return s.expectShort(r, k, n, err, len(p))
		}
		if err != nil {
			s.fail("C01", "read-error", "error/"+k, "%s.Next(%d) with %d readable: %v", r.name, n, len(r.readable), err)
			return false
		}
		if !s.content(r, k, p, n) {
			return false
		}
		r.readable = r.readable[n:]
		s.addLive(r, p, "Next")
	case "Peek":
		s.logOp("%s.Peek(%d)", r.name, n)
		p, err := b.Peek(n)
		if short {
			return s.expectShort(r, k, n, err, len(p))
		}
		if err != nil {
			s.fail("C01", "read-error", "error/"+k, "%s.Peek(%d) with %d readable: %v", r.name, n, len(r.readable), err)
			return false
		}
		if !s.content(r, k, p, n) {
			return false
		}
		s.addLive(r, p, "Peek")
	case "Skip":
		s.logOp("%s.Skip(%d)", r.name, n)
		err := b.Skip(n)
		if short {
			return s.expectShort(r, k, n, err, 0)
		}
		if err != nil {
			s.fail("C01", "read-error", "error/"+k, "%s.Skip(%d) with %d readable: %v", r.name, n, len(r.readable), err)
			return false
		}
		if n > 0 {
			r.readable = r.readable[n:]
		}
	case "ReadBinary", "ReadString":
		s.logOp("%s.%s(%d)", r.name, k, n)
		var p []byte
		var err error
		if k == "ReadBinary" {
			p, err = b.ReadBinary(n)
		} else {
			var str string
			str, err = b.ReadString(n)
			p = unsafe.Slice(unsafe.StringData(str), len(str))
		}
		if short {
			return s.expectShort(r, k, n, err, len(p))
		}
		if err != nil {
			s.fail("C01", "read-error", "error/"+k, "%s.%s(%d) with %d readable: %v", r.name, k, n, len(r.readable), err)
			return false
		}
		if n <= 0 {
			return true
		}
		if !s.content(r, k, p, n) {
			return false
		}
		r.readable = r.readable[n:]
		if blk := mcache.Lookup(&p[0]); blk != nil {
			s.fail("C03", "private-copy-not-pooled", "private-copy/"+k, "%s result aliases pool block #%d", k, blk.Serial)
			return false
		}
		s.own(p, k+" result")
	case "ReadByte":
		s.logOp("%s.ReadByte", r.name)
		c, err := b.ReadByte()
		if len(r.readable) == 0 {
			return s.expectShort(r, k, 1, err, 1)
		}
		if err != nil || c != r.readable[0] {
			s.fail("C01", "read-equals-model", "content/ReadByte", "%s.ReadByte = %q, %v; model %q", r.name, c, err, r.readable[0])
			return false
		}
		r.readable = r.readable[1:]
	case "Until":
		// choose a delimiter that occurs (usually) or not
		var delim byte = 0x7f
		if len(r.readable) > 0 && e != nil && e.Chance(3, 4) {
			delim = r.readable[e.Intn(len(r.readable))]
		}
		s.logOp("%s.Until(%q)", r.name, delim)
		p, err := b.Until(delim)
		idx := bytes.IndexByte(r.readable, delim)
		if idx < 0 {
			if err == nil {
				s.fail("C01", "until", "until/found-absent", "%s.Until(%q) returned %d bytes but the delimiter is not readable", r.name, delim, len(p))
				return false
			}
			if b.Len() != len(r.readable) {
				s.fail("C01", "short-read-consumes-nothing", "short-consumed/Until", "failed Until changed Len from %d to %d", len(r.readable), b.Len())
				return false
			}
			return true
		}
		if err != nil {
			s.fail("C01", "read-error", "error/Until", "%s.Until(%q): %v although the delimiter is at %d", r.name, delim, err, idx)
			return false
		}
		if !s.content(r, k, p, idx+1) {
			return false
		}
		r.readable = r.readable[idx+1:]
		s.addLive(r, p, "Until")
	case "Slice":
		s.logOp("%s.Slice(%d)", r.name, n)
		rd, err := b.Slice(n)
		if short {
			return s.expectShort(r, k, n, err, 0)
		}
		if err != nil {
			s.fail("C01", "read-error", "error/Slice", "%s.Slice(%d) with %d readable: %v", r.name, n, len(r.readable), err)
			return false
		}
		// documented: Slice also releases this reader
		r.live = nil
		if n <= 0 {
			return true
		}
		kid := &lbReader{name: fmt.Sprintf("s%d", len(s.kids)), buf: rd.(*LinkBuffer), readable: append([]byte(nil), r.readable[:n]...), isSlice: true}
		r.readable = r.readable[n:]
		s.kids = append(s.kids, kid)
		if kid.buf.Len() != n {
			s.fail("C01", "len-equals-model", "len/slice-new", "new slice reader has Len %d, want %d", kid.buf.Len(), n)
			return false
		}
	case "Release":
		s.logOp("%s.Release", r.name)
		b.Release()
		r.live = nil
	case "readCopy":
		if r.isSlice {
			return true
		}
		want := n
		if e != nil {
			want = s.size(e, false) + 1
		}
		s.logOp("readCopy(%d)", want)
		p := make([]byte, want)
		got := b.readCopy(p)
		exp := want
		if exp > len(r.readable) {
			exp = len(r.readable)
		}
		if got != exp || !bytes.Equal(p[:got], r.readable[:exp]) {
			s.fail("C01", "read-equals-model", "content/readCopy", "readCopy(%d) = %d, want %d; first difference at %d", want, got, exp, firstDiff(p[:got], r.readable[:exp]))
			return false
		}
		r.readable = r.readable[exp:]
	case "Bytes":
		if r.isSlice {
			return true
		}
		s.logOp("Bytes")
		p := b.Bytes()
		if !bytes.Equal(p, r.readable) {
			s.fail("C01", "read-equals-model", "content/Bytes", "Bytes() returned %d bytes, model %d, first difference at %d", len(p), len(r.readable), firstDiff(p, r.readable))
			return false
		}
	case "GetBytes":
		if r.isSlice {
			return true
		}
		s.logOp("GetBytes")
		nv := 4
		if e != nil {
			nv = 1 + e.Intn(8)
		}
		vs := b.GetBytes(make([][]byte, nv))
		var cat []byte
		for _, v := range vs {
			cat = append(cat, v...)
			s.addLive(r, v, "GetBytes")
		}
		if len(cat) > len(r.readable) || !bytes.Equal(cat, r.readable[:len(cat)]) {
			s.fail("C01", "read-equals-model", "content/GetBytes", "GetBytes vectors (%d bytes) are not a prefix of the %d readable bytes", len(cat), len(r.readable))
			return false
		}
	}
	return true
}

// ---------------------------------------------------------------------------------------------
// scripted witnesses of known findings (fixed histories, stable fingerprints)

func init() {
	registerScenario(&Scenario{Name: "lb_known", Property: "C02", MaxSteps: 200000, Run: runLBKnown,
		Desc: "fixed operation histories that witness recorded known findings (reported as KNOWN-FINDING while they still fail)"})
}

func runLBKnown(e *Env) {
	e.Setup(1, false)
	which := e.Intn(4)
	LinkBufferCap = 16
	mcache.Reset(false)
	vsync.PoolReuse = true
	s := &lbState{e: e}
	s.root = &lbReader{name: "root", buf: NewLinkBuffer()}
	ok := true
	do := func(f func() bool) {
		if ok {
			ok = f() && s.checkCounts() && s.checkLive() && s.checkLedger()
		}
	}
	name := ""
	switch which {
	case 0:
		// the vectors handed out by GetBytes lie in a node that WriteDirect splits afterwards;
		// readCopy then releases the (unexposed) remainder node, which owns the memory
		name = "readCopy-frees-split-remainder/GetBytes"
		do(func() bool { return s.applyMalloc(255) })
		do(s.applyFlush)
		do(func() bool { return s.applyMalloc(1) })
		do(func() bool { return s.applyWriteDirect(1, 1) })
		do(func() bool { return s.readOpN(nil, s.root, "GetBytes", 0) })
		do(func() bool { return s.applyMalloc(2) })
		do(s.applyFlush)
		do(func() bool { return s.readOpN(nil, s.root, "readCopy", 4096) })
	case 1:
		name = "readCopy-frees-split-remainder/Next"
		do(func() bool { return s.applyMalloc(2) })
		do(s.applyFlush)
		do(func() bool { return s.readOpN(nil, s.root, "Next", 1) })
		do(func() bool { return s.applyMalloc(2) })
		do(func() bool { return s.applyWriteDirect(1, 1) })
		do(func() bool { return s.applyMalloc(255) })
		do(s.applyFlush)
		do(func() bool { return s.readOpN(nil, s.root, "ReadString", 86) })
		do(func() bool { return s.readOpN(nil, s.root, "readCopy", 1) })
	case 2:
		// a Slice reader refers to a node that WriteDirect splits afterwards
		name = "slice-reader-over-split-node/before"
		do(func() bool { return s.applyMalloc(2) })
		do(s.applyFlush)
		do(func() bool { return s.readOpN(nil, s.root, "Slice", 1) })
		do(func() bool { return s.applyMalloc(1) })
		do(func() bool { return s.applyWriteDirect(1, 1) })
		do(func() bool { return s.applyMalloc(255) })
		do(s.applyFlush)
		do(func() bool { return s.readOpN(nil, s.kids[0], "Next", 1) })
		do(func() bool { return s.readOpN(nil, s.root, "Next", 4) })
		do(func() bool { return s.readOpN(nil, s.root, "Release", 0) })
	case 3:
		// a Slice reader cut from the first half of an already split node
		name = "slice-reader-over-split-node/after"
		do(func() bool { return s.applyMalloc(2) })
		do(func() bool { return s.applyWriteDirect(1, 1) })
		do(func() bool { return s.applyMalloc(255) })
		do(s.applyFlush)
		do(func() bool { return s.readOpN(nil, s.root, "Slice", 1) })
		do(func() bool { return s.readOpN(nil, s.kids[0], "Next", 1) })
		do(func() bool { return s.readOpN(nil, s.root, "Next", 3) })
		do(func() bool { return s.readOpN(nil, s.root, "Release", 0) })
	}
	if ok {
		s.finish()
	}
	// give the violation of this script its stable identity
	simrt.RewriteViolations(func(v *simrt.Violation) {
		v.Class = v.Property + "/known/" + name
		v.Fingerprint = v.Class
	})
	e.nonTriv = true
	e.Summary = "script " + name + " ops: " + s.opsString()
	e.State = name
}

// ---------------------------------------------------------------------------------------------
// poller-mode protocol: book / bookAck / Release+resetTail, as connection uses them

func runLBPoller(e *Env) {
	s := lbSetup(e)
	size := e.Pick(64, 1024, 4096, 8192)
	s.root = &lbReader{name: "in", buf: NewLinkBuffer(size)}
	b := s.root.buf
	bookSize, maxSize := size, size
	if bookSize < LinkBufferCap {
		bookSize, maxSize = LinkBufferCap, LinkBufferCap
	}
	nops := 2 + e.Intn(14)
	if e.Chance(1, 6) {
		nops = 14 + e.Intn(40)
	}
	e.Summary = fmt.Sprintf("poller cap=%d size=%d reuse=%v", LinkBufferCap, size, mcache.Reuse)
	ok := true
	for i := 0; i < nops && ok; i++ {
		switch e.Intn(10) {
		case 0, 1, 2, 3:
			// one poller delivery, exactly as connection.inputs/inputAck do it
			p := b.book(bookSize, maxSize)
			n := 0
			switch e.Intn(4) {
			case 0:
				n = len(p)
			case 1:
				n = 0
			default:
				n = e.Intn(len(p) + 1)
			}
			s.logOp("book(%d,%d)=%d ack %d", bookSize, maxSize, len(p), n)
			d := s.gen(n)
			copy(p, d)
			if n == bookSize && bookSize < mallocMax {
				bookSize <<= 1
			}
			length, _ := b.bookAck(n)
			s.root.readable = append(s.root.readable, d...)
			if maxSize < length {
				maxSize = length
			}
			if maxSize > mallocMax {
				maxSize = mallocMax
			}
			if n > 0 && len(p) == n {
				s.crossed = true
			}
		case 4:
			// connection.Release
			s.logOp("conn.Release")
			if b.Len() == 0 {
				ms := b.calcMaxSize()
				if ms > mallocMax {
					ms = mallocMax
				}
				if ms > maxSize {
					maxSize = ms
				}
				if b.Len() == 0 {
					b.resetTail(maxSize)
				}
			}
			b.Release()
			s.root.live = nil
		case 5:
			ok = s.step(e, "kid")
		default:
			ok = s.readOp(e, s.root, []string{"Next", "Peek", "Skip", "ReadBinary", "ReadByte", "Slice", "readCopy", "Until", "Next", "ReadString"}[e.Intn(10)])
		}
		if ok {
			ok = s.checkCounts() && s.checkLive() && s.checkLedger() && s.checkStructure(s.root)
		}
	}
	if ok {
		s.finish()
	}
	e.nonTriv = s.crossed
	e.Summary += " ops: " + s.opsString()
	e.State = s.pattern(6)
	vsync.OnDoublePut = nil
}

// ---------------------------------------------------------------------------------------------
// concurrent variant: Slice readers handed to other tasks, read and released in any order
// relative to the parent's reads, Release and Close (the reference counts are the only shared state)

func init() {
	registerScenario(&Scenario{Name: "lb_conc", Property: "C02", MaxSteps: 20000, Run: runLBConc,
		Desc: "a parent LinkBuffer owned by one task and 1-3 Slice readers (some cut from Slice readers) handed to other tasks, which read and Release them in any order relative to the parent's reads, Release and Close; yields at the reference-count atomics"})
}

func runLBConc(e *Env) {
	s := lbSetup(e)
	s.root = &lbReader{name: "root", buf: NewLinkBuffer(e.Pick(0, 16, 4096))}
	b := s.root.buf
	// fill: several nodes, some zero-copy
	for i := 0; i < 2+e.Intn(4); i++ {
		n := e.Pick(1, 7, 16, 40, 300, 5000)
		if e.Bool() {
			buf, _ := b.Malloc(n)
			d := s.gen(n)
			copy(buf, d)
			s.root.readable = append(s.root.readable, d...)
		} else {
			mem := s.userSlice(n)
			b.WriteBinary(mem)
			s.own(mem, "WriteBinary argument")
			s.root.readable = append(s.root.readable, mem...)
		}
		if e.Bool() {
			b.Flush()
		}
	}
	b.Flush()
	nkids := 1 + e.Intn(3)
	type kidT struct {
		r     *lbReader
		done  bool
		fail  string
	}
	var kids []*kidT
	for k := 0; k < nkids && len(s.root.readable) > 0; k++ {
		n := 1 + e.Intn(len(s.root.readable))
		src := s.root
		if len(kids) > 0 && e.Chance(1, 3) && len(kids[len(kids)-1].r.readable) > 1 {
			src = kids[len(kids)-1].r // nested: a Slice reader cut from a Slice reader
			n = 1 + e.Intn(len(src.readable)-1)
		}
		rd, err := src.buf.Slice(n)
		if err != nil {
			s.fail("C01", "read-error", "error/Slice", "Slice(%d) with %d readable: %v", n, len(src.readable), err)
			return
		}
		s.logOp("s%d=%s.Slice(%d)", k, src.name, n)
		kr := &lbReader{name: fmt.Sprintf("s%d", k), buf: rd.(*LinkBuffer), readable: append([]byte(nil), src.readable[:n]...), isSlice: true}
		src.readable = src.readable[n:]
		kids = append(kids, &kidT{r: kr})
	}
	e.Summary = fmt.Sprintf("conc cap=%d kids=%d reuse=%v", LinkBufferCap, len(kids), mcache.Reuse)
	// every task checks its own live results after each of its operations
	for _, k := range kids {
		k := k
		simrt.GoNamed("slice-owner", false, func() {
			type liveT struct {
				got, want []byte
				owner     *LinkBuffer
			}
			var live []liveT
			check := func() bool {
				for _, l := range live {
					if !bytes.Equal(l.got, l.want) {
						k.fail = "a result read from " + k.r.name + " (or a Slice reader cut from it) changed before the Release of its reader"
						return false
					}
				}
				return true
			}
			release := func(b *LinkBuffer) {
				if b == k.r.buf {
					s.logOp("%s.Release", k.r.name)
				} else {
					s.logOp("%s/sub.Release", k.r.name)
				}
				b.Release()
				kept := live[:0]
				for _, l := range live {
					if l.owner != b {
						kept = append(kept, l)
					}
				}
				live = kept
			}
			var subs []*LinkBuffer
			for len(k.r.readable) > 0 {
				n := 1 + e.Intn(len(k.r.readable))
				if e.Chance(1, 4) {
					// cut a Slice reader here, concurrently with whatever the other owners do
					s.logOp("%s.Slice(%d)+Next", k.r.name, n)
					sub, err := k.r.buf.Slice(n)
					if err != nil {
						k.fail = fmt.Sprintf("%s.Slice(%d): %v", k.r.name, n, err)
						break
					}
					// documented: Slice also releases the reader it is cut from
					kept := live[:0]
					for _, l := range live {
						if l.owner != k.r.buf {
							kept = append(kept, l)
						}
					}
					live = kept
					sl := sub.(*LinkBuffer)
					p, err := sl.Next(n)
					if err != nil || !bytes.Equal(p, k.r.readable[:n]) {
						k.fail = fmt.Sprintf("Slice of %s, Next(%d): err=%v, wrong content", k.r.name, n, err)
						break
					}
					live = append(live, liveT{p, append([]byte(nil), p...), sl})
					subs = append(subs, sl)
					k.r.readable = k.r.readable[n:]
					continue
				}
				s.logOp("%s.Next(%d)", k.r.name, n)
				p, err := k.r.buf.Next(n)
				if err != nil || !bytes.Equal(p, k.r.readable[:n]) {
					k.fail = fmt.Sprintf("%s.Next(%d): err=%v, wrong content", k.r.name, n, err)
					break
				}
				live = append(live, liveT{p, append([]byte(nil), p...), k.r.buf})
				k.r.readable = k.r.readable[n:]
				if !check() {
					break
				}
				if e.Chance(1, 4) {
					release(k.r.buf)
				}
				if e.Chance(1, 3) {
					simrt.Sleep(int64(e.Pick(1, 3)) * 100000)
				}
			}
			check()
			early := e.Bool()
			if early {
				release(k.r.buf) // the results of the Slice readers cut from it stay valid
			}
			for _, sl := range subs {
				check()
				release(sl)
			}
			check()
			if !early {
				release(k.r.buf)
			}
			k.done = true
		})
	}
	parentDone := false
	parentFail := ""
	simrt.GoNamed("parent", false, func() {
		var live [][2][]byte
		for len(s.root.readable) > 0 && e.Chance(3, 4) {
			n := 1 + e.Intn(len(s.root.readable))
			s.logOp("root.Next(%d)", n)
			p, err := b.Next(n)
			if err != nil || !bytes.Equal(p, s.root.readable[:n]) {
				parentFail = fmt.Sprintf("root.Next(%d): err=%v, wrong content", n, err)
				break
			}
			live = append(live, [2][]byte{p, append([]byte(nil), p...)})
			s.root.readable = s.root.readable[n:]
			for _, l := range live {
				if !bytes.Equal(l[0], l[1]) {
					parentFail = "a result of the parent changed before its Release"
				}
			}
			if e.Chance(1, 3) {
				s.logOp("root.Release")
				b.Release()
				live = nil
			}
		}
		s.logOp("root.Release")
		b.Release()
		if e.Bool() {
			s.logOp("root.Close")
			b.Close()
		}
		parentDone = true
	})
	simrt.WaitQuiescentFor(1e9)
	e.nonTriv = len(kids) > 0
	if !parentDone {
		s.fail("C02", "conc-completes", "conc/parent-stuck", "the parent task did not finish")
	}
	if parentFail != "" {
		s.fail("C02", "live-result-intact", "conc/parent", "%s", parentFail)
	}
	for _, k := range kids {
		if !k.done && k.fail == "" {
			s.fail("C02", "conc-completes", "conc/slice-stuck", "the owner of %s did not finish", k.r.name)
		}
		if k.fail != "" {
			s.fail("C02", "live-result-intact", "conc/slice", "%s", k.fail)
		}
	}
	s.checkLive()
	s.checkLedger()
	e.State = fmt.Sprint(len(kids), len(s.root.readable))
	vsync.OnDoublePut = nil
}
