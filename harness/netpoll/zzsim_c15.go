//go:build go1.22

package netpoll

// C15 - every descriptor netpoll owns is closed exactly once, and no other.
// The ledger (vsys) is armed in every scenario; this file adds the error-path life cycles.
// C18 - the poller pool (second scenario in this file).

import (
	"fmt"
	"sort"
	"syscall"
	"time"

	"verif.local/simrt"
	"verif.local/simrt/vsys"
)

func init() {
	registerScenario(&Scenario{Name: "c15_errors", Property: "C15", MaxSteps: 20000, Run: runC15,
		Desc: "descriptor life cycles on error paths: refused dials, socket options failing after socket(), registration failing, eventfd creation failing, dial/accept/FD connections closed by either side, with a descriptor-number reuse adversary"})
	registerScenario(&Scenario{Name: "c18_pool", Property: "C18", MaxSteps: 20000, Run: runC18,
		Desc: "a fresh poller manager; phases of 1-8 tasks calling Pick concurrently (the first phase races the lazy initialisation); SetNumLoops/SetLoadBalance applied between phases"})
}

func runC15(e *Env) {
	e.Setup(1+e.Intn(2), e.Chance(1, 3))
	vsys.K.ReuseAdversary = e.Chance(2, 3)
	nsteps := 1 + e.Intn(5)
	var desc []string
	var keep []*connection
	var peers []int
	for i := 0; i < nsteps; i++ {
		switch e.Intn(9) {
		case 7, 8:
			// a dial whose connect succeeds and whose registration with the poller then fails
			// (unix: the connect is immediate; TCP: the first registration, for the connect itself, passes)
			pollmanager.Pick()
			var c Connection
			var err error
			if e.Bool() {
				path := fmt.Sprintf("/tmp/simnp-%d-c15r%d.sock", syscall.Getpid(), i)
				syscall.Unlink(path)
				e.tmpPaths = append(e.tmpPaths, path)
				lfd, lerr := vsys.HListenUnix(path, 8)
				if lerr != nil {
					panic("harness: listen: " + lerr.Error())
				}
				vsys.K.EpollCtlAddFail = 256
				c, err = DialConnection("unix", path, time.Duration(e.Pick(0, 10))*time.Millisecond)
				vsys.K.EpollCtlAddFail = 0
				if vsys.HReadable(lfd) {
					if pfd, aerr := vsys.HAccept(lfd); aerr == nil {
						vsys.HClose(pfd)
					}
				}
				vsys.HClose(lfd)
				desc = append(desc, fmt.Sprintf("dial-unix-register-fail=%v", err != nil))
			} else {
				port := 6000 + i
				vl := vsys.VListen(port, vsys.VAccept, int64(e.Pick(0, 100))*1000)
				vsys.K.EpollCtlAddFail, vsys.K.EpollCtlAddSkip = 256, 1
				c, err = DialConnection("tcp", fmt.Sprintf("127.0.0.1:%d", port), time.Duration(e.Pick(0, 50))*time.Millisecond)
				vsys.K.EpollCtlAddFail, vsys.K.EpollCtlAddSkip = 0, 0
				if vsys.HReadable(vl.LFD) {
					if pfd, aerr := vsys.HAccept(vl.LFD); aerr == nil {
						vsys.HClose(pfd)
					}
				}
				desc = append(desc, fmt.Sprintf("dial-tcp-register-fail=%v", err != nil))
			}
			if err == nil && !isNilConn(c) {
				c.Close() // the fault did not hit (registration was not needed): an ordinary connection
			}
		case 0:
			// dial a path nobody listens on
			path := fmt.Sprintf("/tmp/simnp-%d-absent.sock", syscall.Getpid())
			syscall.Unlink(path)
			c, err := DialConnection("unix", path, time.Duration(e.Pick(0, 10))*time.Millisecond)
			desc = append(desc, fmt.Sprintf("dial-absent=%v", err != nil))
			if err == nil || !isNilConn(c) {
				e.FailP("C14", "dial-result", "absent-target-connected", "dialling a path without listener returned conn=%v err=%v", c != nil, err)
			}
		case 1:
			// socket option fails after socket()
			vsys.K.SetsockoptFail = 256
			path := fmt.Sprintf("/tmp/simnp-%d-x.sock", syscall.Getpid())
			_, err := DialConnection("unix", path, 0)
			vsys.K.SetsockoptFail = 0
			desc = append(desc, fmt.Sprintf("dial-sockopt-fail=%v", err != nil))
		case 2:
			// registration fails: NewFDConnection must give the descriptor back closed
			a, b := vsys.HSocketpair()
			vsys.Adopt(a)
			pollmanager.Pick() // the pool exists: only the connection's own registration fails
			vsys.K.EpollCtlAddFail = 256
			c, err := NewFDConnection(a)
			vsys.K.EpollCtlAddFail = 0
			desc = append(desc, fmt.Sprintf("register-fail=%v", err != nil))
			if err == nil && c != nil {
				c.Close()
			}
			vsys.HClose(b)
		case 3:
			// poller creation fails half way (eventfd, or the registration of the wake-up descriptor)
			if e.Bool() {
				vsys.K.EventfdFail = 256
			} else {
				vsys.K.EpollCtlAddFail = 256
			}
			p, err := openDefaultPoll()
			vsys.K.EventfdFail, vsys.K.EpollCtlAddFail = 0, 0
			desc = append(desc, fmt.Sprintf("openpoll-fail=%v", err != nil))
			if err == nil {
				p.Close()
				simrt.GoNamed("extra-poll", false, func() { p.Wait() })
			}
		case 4:
			// plain FD connection, closed by the user or by the peer
			c, peer := e.NewPair(0)
			if e.Bool() {
				c.Close()
				vsys.HClose(peer)
				desc = append(desc, "fdconn-user-close")
			} else {
				vsys.HClose(peer)
				keep = append(keep, c)
				desc = append(desc, "fdconn-peer-close")
			}
		case 5:
			// dialled connection
			c, peer := e.NewConnMode(modeDial)
			keep = append(keep, c)
			peers = append(peers, peer)
			desc = append(desc, "dial-ok")
		case 6:
			// accepted connection, server shut down at the end
			c, peer := e.NewConnMode(modeAccept)
			if e.Bool() {
				vsys.HClose(peer)
			} else {
				peers = append(peers, peer)
			}
			keep = append(keep, c)
			desc = append(desc, "accept-ok")
		}
		if e.Bool() {
			simrt.WaitQuiescentFor(3e9)
		}
	}
	simrt.WaitQuiescentFor(3e9)
	for _, c := range keep {
		c.Close()
	}
	for _, p := range peers {
		vsys.HClose(p)
	}
	simrt.WaitQuiescentFor(3e9)
	e.nonTriv = true
	sort.Strings(desc)
	e.Summary = fmt.Sprintf("reuseAdversary=%v steps=%v", vsys.K.ReuseAdversary, desc)
	e.State = fmt.Sprint(desc)
	e.Teardown()
	CheckLedger(e)
}

// ---------------------------------------------------------------------------------------------

func runC18(e *Env) {
	e.Setup(1+e.Intn(4), false)
	m := pollmanager
	phases := 1 + e.Intn(4)
	cfgLoops := e.Pollers
	lb := RoundRobin
	var log []string
	for ph := 0; ph < phases; ph++ {
		if ph > 0 {
			// reconfiguration between phases only (nothing in flight), as the contract demands
			if e.Bool() {
				if e.Chance(1, 3) {
					// the configuration may be changed more than once before the next Pick: the last value counts
					tmp := 1 + e.Intn(4)
					m.SetNumLoops(tmp)
					log = append(log, fmt.Sprintf("loops=%d(overridden)", tmp))
				}
				cfgLoops = 1 + e.Intn(4)
				m.SetNumLoops(cfgLoops)
				log = append(log, fmt.Sprintf("loops=%d", cfgLoops))
			}
			if e.Chance(1, 3) {
				lb = LoadBalance(e.Intn(2))
				m.SetLoadBalance(lb)
				log = append(log, fmt.Sprintf("lb=%d", lb))
			}
		}
		npick := 1 + e.Intn(8)
		picked := make([][]Poll, npick)
		done := 0
		for k := 0; k < npick; k++ {
			k := k
			cnt := 1 + e.Intn(4)
			simrt.GoNamed("picker", false, func() {
				for j := 0; j < cnt; j++ {
					p := m.Pick()
					picked[k] = append(picked[k], p)
				}
				done++
			})
		}
		simrt.WaitQuiescentFor(1e9)
		if done != npick {
			e.Fail("pick-returns", "pick-stuck", "phase %d: %d of %d Pick callers are stuck; tasks=%v", ph, npick-done, npick, simrt.TaskStates())
			break
		}
		log = append(log, fmt.Sprintf("phase%d:%dx", ph, npick))
		// every returned poller is one of the pool's, open and with a running loop
		total := 0
		counts := map[Poll]int{}
		for _, ps := range picked {
			for _, p := range ps {
				total++
				counts[p]++
				dp, ok := p.(*defaultPoll)
				if !ok || dp == nil {
					e.Fail("pick-returns-poller", "nil-poller", "Pick returned %v", p)
					continue
				}
				if dp.fd >= vsys.MaxFD || !vsys.FDs[dp.fd].Open || vsys.FDs[dp.fd].Kind != "epoll" {
					e.Fail("picked-poller-running", "closed-poller", "Pick returned a poller whose epoll descriptor %d is closed", dp.fd)
				}
			}
		}
		if len(m.polls) != cfgLoops {
			e.Fail("pool-size", "pool-size", "phase %d: %d loops configured, the pool holds %d pollers", ph, cfgLoops, len(m.polls))
		}
		live := 0
		for fd := range vsys.FDs {
			if vsys.FDs[fd].Open && vsys.FDs[fd].Kind == "epoll" {
				live++
			}
		}
		if live != cfgLoops {
			e.Fail("pool-size", "live-pollers", "phase %d: %d loops configured, %d epoll descriptors are open (surplus pollers must be closed)", ph, cfgLoops, live)
		}
		if lb == RoundRobin && npick > 0 {
			// consecutive picks are spread evenly
			min, max := 1<<30, 0
			for _, p := range m.polls {
				c := counts[p]
				if c < min {
					min = c
				}
				if c > max {
					max = c
				}
			}
			if max-min > 1 {
				e.Fail("round-robin-even", "uneven", "phase %d: round-robin gave %d picks to one poller and %d to another out of %d", ph, max, min, total)
			}
		}
		// a Trigger wakes a blocked loop: it must consume the wake-up (eventfd drained)
		for _, p := range m.polls {
			p.Trigger()
		}
		simrt.WaitQuiescentFor(1e9)
		for _, p := range m.polls {
			dp := p.(*defaultPoll)
			if vsys.Readable(dp.wop.FD) {
				e.FailP("C11", "trigger-wakes", "trigger-not-consumed", "a poller's wake-up descriptor is still readable at quiescence: its loop did not wake up")
			}
		}
	}
	e.nonTriv = phases > 1
	e.Summary = fmt.Sprintf("initial=%d %v", e.Pollers, log)
	e.State = fmt.Sprint(log)
	e.Teardown()
	CheckLedger(e)
}
