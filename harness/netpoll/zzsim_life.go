//go:build go1.22

package netpoll

// Connection lifecycle scenarios: C05 (teardown exactly once), C06 (serial handler, no stranded
// input), C09 (callback order). One engine, three registrations with different emphasis; all
// oracles are armed in every run and each reports under its own property.

import (
	"context"
	"fmt"
	"sync/atomic"
	"time"

	"verif.local/simrt"
	"verif.local/simrt/vsys"
	"verif.local/simrt/vtime"
)

func init() {
	registerScenario(&Scenario{Name: "c05_teardown", Property: "C05", MaxSteps: 12000, Run: func(e *Env) { runLife(e, "C05") },
		Desc: "one accepted connection; k Close callers, optional Detach, peer write/half-close/close/reset, handler blocking/returning/panicking/closing, Shutdown; close callbacks, descriptor, poller slot and IsActive monitored"})
	registerScenario(&Scenario{Name: "c06_handler", Property: "C06", MaxSteps: 12000, Run: func(e *Env) { runLife(e, "C06") },
		Desc: "OnRequest scripted per invocation against any chunking of the input, gates, peer close; serial-handler and stranded-input oracles"})
	registerScenario(&Scenario{Name: "c09_callbacks", Property: "C09", MaxSteps: 12000, Run: func(e *Env) { runLife(e, "C09") },
		Desc: "real accept path with instrumented OnPrepare/OnConnect/OnRequest/OnDisconnect/close callbacks; first data and peer close at any step"})
}

type reqStep struct {
	consume int // 0 = everything buffered, k = min(k, buffered)
	gate    bool
	close   bool
	panic   bool
	echo    bool
}

type lifeRun struct {
	e        *Env
	focus    string
	conn     *connection
	fd       int
	hist     []Ev
	inflight int
	gates    bool // true once main has opened the gates
	consumed int
	// counters
	cbRuns      [4]int // user close callbacks
	cbOrder     []int
	firstCBSeq  int
	lastReqEnd  int
	reqStarts   int
	connStart   int
	connEnd     int
	discCount   int
	prepEnd     int
	closeCalled int // number of Close/Detach invocations by user code (closers, handlers, main)
	detached    bool
	detachSeq   int
	shutdownRan bool
	firstClosedBy int32
	nUserCB     int
	cb3         bool
	activeWent  bool // IsActive has been seen false
	reactivated bool
}

func (l *lifeRun) rec(kind string, n int) int {
	s := simrt.Step()
	l.hist = append(l.hist, Ev{Seq: s, Kind: kind, N: n})
	simrt.Publish()
	return s
}

const lifeStream = 5

func runLife(e *Env, focus string) {
	faults := e.Chance(1, 2)
	e.Setup(1+e.Intn(2), faults)
	vtime.AsyncChan = e.Chance(2, 3)
	if e.Chance(1, 4) {
		vsys.K.ReuseAdversary = true
	}
	l := &lifeRun{e: e, focus: focus, firstCBSeq: -1, connStart: -1, connEnd: -1, prepEnd: -1, lastReqEnd: -1}

	// ---- configuration
	hasOnConnect := e.Chance(1, 2)
	hasOnDisconnect := e.Chance(2, 3)
	hasOnRequest := e.Chance(4, 5)
	nUserCB := e.Intn(4)
	cbInConnect := hasOnConnect && e.Chance(1, 3)
	onConnectMode := e.Intn(4) // 0 return, 1 gate, 2 close, 3 sleep
	nClosers := 0
	detach := false
	withShutdown := false
	switch focus {
	case "C05":
		nClosers = e.Intn(4)
		detach = nClosers > 0 && e.Chance(1, 5) && !simrt.RaceBuild // Detach is outside the documented concurrency contract
		withShutdown = e.Chance(1, 5)
		if detach {
			// Detach competes only with the poller, so that "who closed first" is observable
			nClosers, withShutdown = 1, false
			if onConnectMode == 2 {
				onConnectMode = 0
			}
		}
	case "C06":
		hasOnRequest = true
		if e.Chance(1, 6) {
			nClosers = 1
		}
		if onConnectMode == 2 {
			onConnectMode = 1
		}
	case "C09":
		hasOnConnect = e.Chance(3, 4)
		hasOnDisconnect = true
		if e.Chance(1, 5) {
			nClosers = 1
		}
	}
	l.nUserCB = nUserCB
	nsteps := 1 + e.Intn(4)
	script := make([]reqStep, nsteps)
	for i := range script {
		st := &script[i]
		switch e.Intn(3) {
		case 0:
			st.consume = 0
		case 1:
			st.consume = 1
		case 2:
			st.consume = 1 + e.Intn(40)
		}
		st.gate = e.Chance(1, 4)
		st.echo = e.Chance(1, 4)
		if focus == "C05" {
			st.close = !detach && e.Chance(1, 6)
			st.panic = !detach && e.Chance(1, 8)
		} else if focus == "C09" {
			st.close = e.Chance(1, 10)
		}
	}
	total := e.Pick(0, 1, 2, 10, 50, 200, 700)
	ending := e.Intn(4) // 0 stay open, 1 close, 2 shutdown(write), 3 close with unread input (reset)
	if focus == "C09" && e.Chance(1, 2) {
		ending = 1
	}
	pauses := e.Chance(1, 2)
	e.Summary = fmt.Sprintf("focus=%s pollers=%d onConnect=%v(mode %d) onDisconnect=%v onRequest=%v userCB=%d cbInConnect=%v closers=%d detach=%v shutdown=%v script=%v total=%d ending=%d faults=%v",
		focus, e.Pollers, hasOnConnect, onConnectMode, hasOnDisconnect, hasOnRequest, nUserCB, cbInConnect, nClosers, detach, withShutdown, script, total, ending, faults)

	userCB := func(k int) CloseCallback {
		return func(c Connection) error {
			s := l.rec("closecb", k)
			if l.firstCBSeq < 0 {
				l.firstCBSeq = s
			}
			l.cbRuns[k]++
			l.cbOrder = append(l.cbOrder, k)
			if l.inflight > 0 {
				e.FailP("C05", "no-close-callback-during-handler", "closecb-during-handler", "close callback %d ran at step %d while a handler invocation is in progress", k, s)
			}
			return nil
		}
	}
	registered := 0
	var opts []Option
	opts = append(opts, WithOnPrepare(func(c Connection) context.Context {
		l.conn = c.(*connection)
		l.fd = l.conn.fd
		l.rec("prepare-start", 0)
		for k := 0; k < nUserCB; k++ {
			c.AddCloseCallback(userCB(k))
			registered++
		}
		l.prepEnd = l.rec("prepare-end", 0)
		return context.Background()
	}))
	if hasOnConnect {
		opts = append(opts, WithOnConnect(func(ctx context.Context, c Connection) context.Context {
			l.connStart = l.rec("connect-start", 0)
			l.inflight++
			if cbInConnect {
				c.AddCloseCallback(userCB(3))
				l.cb3 = true
				registered++
			}
			switch onConnectMode {
			case 1:
				simrt.WaitUntil("gate(OnConnect)", func() bool { return l.gates })
			case 2:
				l.closeCalled++
				c.Close()
			case 3:
				vtime.Sleep(time.Millisecond)
			}
			l.inflight--
			l.connEnd = l.rec("connect-end", 0)
			return ctx
		}))
	}
	if hasOnDisconnect {
		opts = append(opts, WithOnDisconnect(func(ctx context.Context, c Connection) {
			s := l.rec("disconnect", 0)
			l.discCount++
			if hasOnConnect && (l.connEnd < 0 || s < l.connEnd) {
				e.FailP("C09", "disconnect-after-connect", "disconnect-before-connect-end", "OnDisconnect started at step %d before OnConnect had finished (end=%d)", s, l.connEnd)
			}
			if l.firstCBSeq >= 0 {
				e.FailP("C09", "close-callbacks-last", "disconnect-after-closecb", "OnDisconnect started at step %d after the first close callback (step %d)", s, l.firstCBSeq)
			}
		}))
	}
	reqIdx := 0
	var onReq OnRequest
	if hasOnRequest {
		onReq = func(ctx context.Context, c Connection) error {
			s := l.rec("req-start", 0)
			l.reqStarts++
			l.inflight++
			if l.inflight > 1 {
				e.FailP("C06", "handler-serial", "two-handlers", "a second handler invocation started at step %d while one is in progress", s)
			}
			if hasOnConnect && (l.connEnd < 0 || s < l.connEnd) {
				e.FailP("C09", "connect-before-request", "request-before-connect-end", "OnRequest started at step %d before OnConnect finished (end=%d)", s, l.connEnd)
			}
			if l.firstCBSeq >= 0 {
				e.FailP("C09", "close-callbacks-last", "request-after-closecb", "OnRequest started at step %d after the first close callback (step %d)", s, l.firstCBSeq)
			}
			st := script[len(script)-1]
			if reqIdx < len(script) {
				st = script[reqIdx]
			}
			reqIdx++
			rd := c.Reader()
			have := rd.Len()
			k := have
			if st.consume > 0 && st.consume < have {
				k = st.consume
			}
			var echo []byte
			if k > 0 {
				p, err := rd.Next(k)
				if err != nil {
					e.FailP("C06", "handler-read", "handler-next-error", "Next(%d) inside the handler with Len()=%d failed: %v", k, have, err)
				} else if bad := checkStream(lifeStream, l.consumed, p); bad >= 0 {
					e.FailP("C04", "stream-intact", "handler-content", "handler read %d bytes at stream position %d: byte %d differs", k, l.consumed, bad)
				}
				echo = append(echo, p...)
				l.consumed += k
				rd.Release()
			}
			if st.gate {
				simrt.WaitUntil("gate(OnRequest)", func() bool { return l.gates })
			}
			if st.echo && len(echo) > 0 {
				c.Writer().WriteBinary(echo)
				c.Writer().Flush()
			}
			if st.close || k == 0 {
				l.closeCalled++
				c.Close()
			}
			l.inflight--
			l.lastReqEnd = l.rec("req-end", k)
			if st.panic {
				l.closeCalled++ // netpoll closes the connection of a panicking handler
				panic("harness: scripted handler panic")
			}
			return nil
		}
	}

	ln, path := e.NewRawListener("life")
	evl, _ := NewEventLoop(onReq, opts...)
	e.StartServer(evl, ln)

	// IsActive monotonicity, sampled after every step
	simrt.SetMonitor(func() {
		c := l.conn
		if c == nil {
			return
		}
		cv := atomic.LoadInt32(&c.keychain[closing])
		act := cv == 0
		if !act && l.firstClosedBy == 0 {
			l.firstClosedBy = cv
		}
		if !act {
			l.activeWent = true
		} else if l.activeWent && !l.reactivated {
			l.reactivated = true
			e.FailP("C05", "isactive-monotone", "isactive-true-after-false", "IsActive() is true again at step %d after having been false", simrt.Step())
		}
	})

	// ---- the peer
	peer := -1
	peerDone := false
	peerWrote := 0
	peerEndSeq := -1
	simrt.GoNamed("peer", false, func() {
		fd, err := vsys.HConnectUnix(path)
		if err != nil {
			peerDone = true // the listener is already gone (Shutdown came first): nothing to observe
			return
		}
		peer = fd
		data := streamBytes(lifeStream, 0, total)
		off := 0
		for off < len(data) {
			n := 1 + e.Intn(1+e.Pick(1, 5, 30, 300, 6000))
			if n > len(data)-off {
				n = len(data) - off
			}
			if pauses && e.Chance(1, 3) {
				simrt.Sleep(int64(e.Pick(1, 2, 10)) * int64(time.Millisecond) / 2)
			}
			w, err := PeerWriteAll(fd, data[off:off+n], func(r int) int { return r })
			off += w
			peerWrote = off
			if err != nil {
				break
			}
		}
		if pauses && e.Chance(1, 3) {
			simrt.Sleep(int64(e.Pick(1, 10)) * int64(time.Millisecond))
		}
		switch ending {
		case 1, 3:
			// 3: unread echo data in our receive queue turns the close into a reset
			vsys.HClose(fd)
			peer = -1
			peerEndSeq = simrt.Step()
		case 2:
			vsys.HShutdown(fd, 1)
			peerEndSeq = simrt.Step()
		}
		peerDone = true
	})

	// ---- user closers
	over := false
	for k := 0; k < nClosers; k++ {
		k := k
		useDetach := detach && k == 0
		simrt.GoNamed("closer", false, func() {
			// a closer acts on a connection the server has handed out (tracked, callbacks registered);
			// Close racing with the accept path itself is the business of the C13 scenarios
			simrt.WaitUntil("connection accepted", func() bool {
				svr := evl.(*eventLoop).svr
				return over || (l.conn != nil && l.prepEnd >= 0 && svr != nil && svr.connections.Len() > 0)
			})
			if over {
				return // the connection never came to be tracked (closed during its accept): nothing to close
			}
			if e.Chance(1, 2) {
				simrt.Sleep(int64(e.Pick(1, 3, 20)) * int64(time.Millisecond) / 2)
			}
			l.rec("user-close", k)
			l.closeCalled++
			if useDetach {
				l.detached = true
				l.detachSeq = simrt.Step()
				l.conn.Detach()
			} else {
				l.conn.Close()
			}
		})
	}
	shutdownDone := false
	if withShutdown {
		simrt.GoNamed("shutdown", false, func() {
			simrt.Sleep(int64(e.Pick(1, 5, 30)) * int64(time.Millisecond) / 2)
			ctx, cancel := simrt.WithTimeout(context.Background(), time.Duration(e.Pick(10, 200))*time.Millisecond)
			l.shutdownRan = true // Shutdown may close idle connections on the user's behalf
			evl.Shutdown(ctx)
			cancel()
			shutdownDone = true
		})
	}

	// ---- phase 1: run dry, then open the gates, run dry again
	simrt.WaitQuiescent(true)
	l.gates = true
	simrt.WaitQuiescent(true)
	_, _ = shutdownDone, peerEndSeq
	e.nonTriv = l.conn != nil && (peerWrote > 0 || nClosers > 0 || ending != 0)

	if l.conn != nil {
		l.checkStable(hasOnRequest, hasOnConnect, hasOnDisconnect, ending, peerWrote, peerDone, registered)
	}
	// ---- phase 2: whoever is left gets closed by the user; then everything must be torn down
	if l.conn != nil {
		if !l.detached {
			l.closeCalled++
			l.rec("final-close", 0)
			l.conn.Close()
		}
		simrt.WaitQuiescent(true)
		l.checkTornDown(registered)
	}
	if peer >= 0 {
		vsys.HClose(peer)
	}
	over = true // lets tasks that are still waiting for something that never happened finish
	simrt.WaitQuiescent(false)
	simrt.SetMonitor(nil)
	e.Teardown()
	l.checkDescriptors()
	e.Hist = l.hist
	e.State = fmt.Sprintf("%d/%d/%d/%d/%v", len(l.hist), l.reqStarts, l.consumed, l.discCount, l.cbOrder)
}

// checkStable evaluates the oracles that hold once nothing can move any more (gates open,
// timers run dry, peer finished).
func (l *lifeRun) checkStable(hasOnRequest, hasOnConnect, hasOnDisconnect bool, ending, peerWrote int, peerDone bool, registered int) {
	e := l.e
	c := l.conn
	reallyClosedByUser := l.closeCalled > 0
	userClosed := reallyClosedByUser || l.shutdownRan
	closedBy := atomic.LoadInt32(&c.keychain[closing])
	// C06: no stranded input
	if hasOnRequest && !userClosed && closedBy != user {
		if n := c.inputBuffer.Len(); n > 0 && l.inflight == 0 {
			e.FailP("C06", "no-stranded-input", "stranded-input", "%d bytes are buffered at quiescence, the connection has a request handler, nobody closed it, and no invocation is in progress or will start without a further network event (handler invocations so far: %d)", n, l.reqStarts)
		}
	}
	// C06: peer closed => everything it sent was offered to the handler before the close callbacks
	if hasOnRequest && !userClosed && peerDone && ending != 0 && ending != 3 && closedBy != none {
		if l.consumed != peerWrote {
			phase := "established"
			if hasOnConnect && l.connStart < 0 {
				phase = "before-onconnect-started"
			}
			e.FailP("C06", "input-offered-before-close", "input-lost-at-peer-close/"+phase, "the peer sent %d bytes and closed; the handler was offered only %d before the connection was torn down (OnConnect configured=%v, started=%v)", peerWrote, l.consumed, hasOnConnect, l.connStart >= 0)
		}
		if l.firstCBSeq >= 0 && l.lastReqEnd > l.firstCBSeq {
			e.FailP("C06", "input-offered-before-close", "handler-after-closecb", "a handler invocation ended at step %d after the first close callback (step %d)", l.lastReqEnd, l.firstCBSeq)
		}
	}
	// C09: OnPrepare finished before the connection could receive events
	addSeq := -1
	for _, ev := range vsys.Events {
		if ev.Name == "epoll_ctl" && ev.FD == l.fd && ev.N == 1 /* EPOLL_CTL_ADD */ && ev.Err == 0 {
			addSeq = ev.Step
			break
		}
	}
	if addSeq >= 0 && l.prepEnd >= 0 && addSeq < l.prepEnd {
		e.FailP("C09", "prepare-before-registration", "registered-before-prepare-end", "the connection was registered with the poller at step %d, OnPrepare ended at step %d", addSeq, l.prepEnd)
	}
	// C09: the peer closed an established connection nobody else closed => OnDisconnect exactly once
	if hasOnDisconnect {
		if l.discCount > 1 {
			e.FailP("C09", "disconnect-at-most-once", "disconnect-twice", "OnDisconnect ran %d times", l.discCount)
		}
		if !userClosed && peerDone && (ending == 1 || ending == 2 || ending == 3) && closedBy != none {
			if (hasOnConnect && l.connEnd >= 0 || !hasOnConnect) && l.discCount != 1 {
				e.FailP("C09", "disconnect-exactly-once", "disconnect-lost", "the peer closed a connection whose OnConnect %s and nobody else closed it, but OnDisconnect ran %d times", map[bool]string{true: "had run", false: "is not configured"}[hasOnConnect], l.discCount)
			}
		}
	}
	// C05: once some closer has acted (user close, or peer close with callbacks configured) the
	// close callbacks have run
	pollerCloses := closedBy != none && (hasOnConnect || hasOnRequest)
	if (reallyClosedByUser || pollerCloses) && !l.detachedOnly() {
		for k := 0; k < 4; k++ {
			if k != 3 && l.cbRegistered(k, registered) && l.cbRuns[k] == 0 && l.inflight == 0 {
				e.FailP("C05", "close-callbacks-ran", "closecb-never-ran", "the connection was closed (user closes=%d, closed by=%d) and nothing can move any more, but close callback %d never ran", l.closeCalled, closedBy, k)
				break
			}
		}
	}
}

func (l *lifeRun) detachedOnly() bool { return false }

// cbRegistered reports whether user callback k was registered in this run.
func (l *lifeRun) cbRegistered(k, registered int) bool {
	if k == 3 {
		return l.cb3
	}
	return k < l.nUserCB && l.prepEnd >= 0
}

// checkTornDown: after the final user Close everything must have happened exactly once.
func (l *lifeRun) checkTornDown(registered int) {
	e := l.e
	for k := 0; k < 4; k++ {
		if !l.cbRegistered(k, registered) {
			continue
		}
		if k == 3 && l.cbRuns[k] <= 1 {
			continue // registered from OnConnect, possibly concurrently with a Close: at most once
		}
		if l.cbRuns[k] != 1 && l.inflight == 0 {
			e.FailP("C05", "close-callback-exactly-once", fmt.Sprintf("closecb-ran-%d-times", l.cbRuns[k]), "close callback %d ran %d times (order of runs %v)", k, l.cbRuns[k], l.cbOrder)
			return
		}
	}
	// reverse order of registration: 3 (added in OnConnect) first, then nUserCB-1 .. 0
	last := 99
	for _, k := range l.cbOrder {
		if k > last {
			e.FailP("C05", "close-callback-order", "closecb-order", "close callbacks ran in order %v, registration order was ascending", l.cbOrder)
			return
		}
		last = k
	}
	// descriptor closed exactly once by netpoll; never once Detach has been invoked
	closes, closesAfterDetach := 0, 0
	for _, ev := range vsys.Events {
		if (ev.Name == "close" || ev.Name == "close!bad") && ev.FD == l.fd {
			closes++
			if l.detached && l.firstClosedBy == user {
				closesAfterDetach++
			}
		}
	}
	if l.inflight == 0 {
		if closes > 1 {
			e.FailP("C05", "descriptor-closed-once", "fd-closed-twice", "netpoll issued close on the connection's descriptor %d times", closes)
		} else if l.detached && closesAfterDetach > 0 {
			e.FailP("C05", "descriptor-closed-once", "fd-closed-after-detach", "Detach was the first to close the connection, yet netpoll closed its descriptor")
		} else if !l.detached && closes == 0 {
			e.FailP("C05", "descriptor-closed-once", "fd-never-closed", "the connection was closed and torn down but netpoll never closed its descriptor")
		}
	}
	if l.detached && l.fd < vsys.MaxFD && vsys.FDs[l.fd].Open && vsys.FDs[l.fd].Owner == vsys.OwnNetpoll {
		vsys.Disown(l.fd)
		vsys.HClose(l.fd)
	}
}

// checkDescriptors is the C15 ledger verdict plus the poller-slot audit of C05/C10.
func (l *lifeRun) checkDescriptors() {
	e := l.e
	CheckLedger(e)
}

// CheckLedger reports C15 violations recorded by the descriptor ledger. Call after Teardown.
func CheckLedger(e *Env) {
	for _, bc := range vsys.BadCloses {
		what := "a descriptor that is not open"
		if bc.Arg == vsys.OwnHarness {
			what = "a descriptor it does not own"
		} else if bc.Arg == vsys.OwnNetpoll {
			what = "a descriptor twice"
		}
		e.FailP("C15", "close-only-own-descriptors", "bad-close", "netpoll closed %s (number %d) at step %d", what, bc.FD, bc.Step)
		return
	}
	if dmg := vsys.CheckTripwires(); len(dmg) > 0 {
		e.FailP("C15", "close-only-own-descriptors", "tripwire-closed", "descriptor number(s) %v, reused by somebody else after netpoll's close, were closed again", dmg)
		return
	}
	vsys.Reconcile()
	var open []string
	for fd := range vsys.FDs {
		if vsys.FDs[fd].Open && vsys.FDs[fd].Owner == vsys.OwnNetpoll {
			open = append(open, fmt.Sprintf("%d(%s)", fd, vsys.FDs[fd].Kind))
		}
	}
	if len(open) > 0 {
		e.FailP("C15", "no-descriptor-left", "fd-leak/"+kindsOf(open), "after every connection, listener and poller was closed netpoll still holds %v", open)
	}
}

func kindsOf(open []string) string {
	if len(open) == 0 {
		return "?"
	}
	s := open[0]
	if i := indexByte(s, '('); i >= 0 {
		return s[i+1 : len(s)-1]
	}
	return s
}

func indexByte(s string, c byte) int {
	for i := 0; i < len(s); i++ {
		if s[i] == c {
			return i
		}
	}
	return -1
}
