//go:build go1.22

package netpoll

// Connection lifecycle scenarios: C05 (teardown exactly once), C06 (serial handler, no stranded
// input), C09 (callback order). One engine, three registrations with different emphasis; all
// oracles are armed in every run and each reports under its own property.

import (
	"context"
	"fmt"
	"sync/atomic"
	"time"

	"verif.local/simrt"
	"verif.local/simrt/vsys"
	"verif.local/simrt/vtime"
)

func init() {
	registerScenario(&Scenario{Name: "c05_teardown", Property: "C05", MaxSteps: 12000, Run: func(e *Env) { runLife(e, "C05") },
		Desc: "one accepted connection; k Close callers, optional Detach, peer write/half-close/close/reset, handler blocking/returning/panicking/closing, Shutdown; close callbacks, descriptor, poller slot and IsActive monitored"})
	registerScenario(&Scenario{Name: "c06_handler", Property: "C06", MaxSteps: 12000, Run: func(e *Env) { runLife(e, "C06") },
		Desc: "OnRequest scripted per invocation against any chunking of the input, gates, peer close; serial-handler and stranded-input oracles"})
	registerScenario(&Scenario{Name: "c09_callbacks", Property: "C09", MaxSteps: 12000, Run: func(e *Env) { runLife(e, "C09") },
		Desc: "real accept path with instrumented OnPrepare/OnConnect/OnRequest/OnDisconnect/close callbacks; first data and peer close at any step"})
}

type reqStep struct {
	consume int // 0 = everything buffered, k = min(k, buffered)
	gate    bool
	close   bool
	panic   bool
	echo    bool
	past    bool // a blocking read with a read deadline that has already passed
}

type lifeRun struct {
	e        *Env
	focus    string
	conn     *connection
	fd       int
	hist     []Ev
	inflight int
	gates    bool // true once main has opened the gates
	consumed int
	// counters
	cbRuns      [4]int // user close callbacks
	cbOrder     []int
	firstCBSeq  int
	lastReqEnd  int
	reqStarts   int
	connStart   int
	connEnd     int
	discCount   int
	prepEnd     int
	closeCalled int // number of Close/Detach invocations by user code (closers, handlers, main)
	detached    bool
	detachSeq   int
	shutdownRan bool
	firstClosedBy int32
	nUserCB     int
	cb3         bool
	activeWent  bool // IsActive has been seen false
	reactivated bool
}

func (l *lifeRun) rec(kind string, n int) int {
	s := simrt.Step()
	l.hist = append(l.hist, Ev{Seq: s, Kind: kind, N: n})
	simrt.Publish()
	return s
}

const lifeStream = 5

func runLife(e *Env, focus string) {
	faults := e.Chance(1, 2)
	e.Setup(1+e.Intn(2), faults)
	vtime.AsyncChan = e.Chance(2, 3)
	if e.Chance(1, 4) {
		vsys.K.ReuseAdversary = true
	}
	l := &lifeRun{e: e, focus: focus, firstCBSeq: -1, connStart: -1, connEnd: -1, prepEnd: -1, lastReqEnd: -1}

	// ---- configuration
	hasOnConnect := e.Chance(1, 2)
	hasOnDisconnect := e.Chance(2, 3)
	hasOnRequest := e.Chance(4, 5)
	nUserCB := e.Intn(4)
	cbInConnect := hasOnConnect && e.Chance(1, 3)
	onConnectMode := e.Intn(4) // 0 return, 1 gate, 2 close, 3 sleep
	nClosers := 0
	detach := false
	withShutdown := false
	switch focus {
	case "C05":
		nClosers = e.Intn(4)
		detach = nClosers > 0 && e.Chance(1, 5) && !simrt.RaceBuild // Detach is outside the documented concurrency contract
		withShutdown = e.Chance(1, 5)
		if detach {
			// Detach competes only with the poller, so that "who closed first" is observable
			nClosers, withShutdown = 1, false
			if onConnectMode == 2 {
				onConnectMode = 0
			}
		}
	case "C06":
		hasOnRequest = true
		if e.Chance(1, 6) {
			nClosers = 1
		}
		if onConnectMode == 2 {
			onConnectMode = 1
		}
	case "C09":
		hasOnConnect = e.Chance(3, 4)
		hasOnDisconnect = true
		if e.Chance(1, 5) {
			nClosers = 1
		}
	}
	l.nUserCB = nUserCB
	nsteps := 1 + e.Intn(4)
	script := make([]reqStep, nsteps)
	for i := range script {
		st := &script[i]
		switch e.Intn(3) {
		case 0:
			st.consume = 0
		case 1:
			st.consume = 1
		case 2:
			st.consume = 1 + e.Intn(40)
		}
		st.gate = e.Chance(1, 4)
		st.echo = e.Chance(1, 4)
		if focus == "C05" {
			st.close = !detach && e.Chance(1, 6)
			st.panic = !detach && e.Chance(1, 8)
		} else if focus == "C09" {
			st.close = e.Chance(1, 10)
		} else if focus == "C06" {
			st.past = e.Chance(1, 5)
		}
	}
	total := e.Pick(0, 1, 2, 10, 50, 200, 700)
	ending := e.Intn(4) // 0 stay open, 1 close, 2 shutdown(write), 3 close with unread input (reset)
	if focus == "C09" && e.Chance(1, 2) {
		ending = 1
	}
	pauses := e.Chance(1, 2)
	e.Summary = fmt.Sprintf("focus=%s pollers=%d onConnect=%v(mode %d) onDisconnect=%v onRequest=%v userCB=%d cbInConnect=%v closers=%d detach=%v shutdown=%v script=%v total=%d ending=%d faults=%v",
		focus, e.Pollers, hasOnConnect, onConnectMode, hasOnDisconnect, hasOnRequest, nUserCB, cbInConnect, nClosers, detach, withShutdown, script, total, ending, faults)

	userCB := func(k int) CloseCallback {
		return func(c Connection) error {
			s := l.rec("closecb", k)
			if l.firstCBSeq < 0 {
				l.firstCBSeq = s
			}
			l.cbRuns[k]++
			l.cbOrder = append(l.cbOrder, k)
			if l.inflight > 0 {
				e.FailP("C05", "no-close-callback-during-handler", "closecb-during-handler", "close callback %d ran at step %d while a handler invocation is in progress", k, s)
			}
			return nil
		}
	}
	registered := 0
	var opts []Option
	opts = append(opts, WithOnPrepare(func(c Connection) context.Context {
		l.conn = c.(*connection)
		l.fd = l.conn.fd
		l.rec("prepare-start", 0)
		for k := 0; k < nUserCB; k++ {
			c.AddCloseCallback(userCB(k))
			registered++
		}
		l.prepEnd = l.rec("prepare-end", 0)
		return context.Background()
	}))
	if hasOnConnect {
		opts = append(opts, WithOnConnect(func(ctx context.Context, c Connection) context.Context {
			l.connStart = l.rec("connect-start", 0)
			l.inflight++
			if cbInConnect {
				c.AddCloseCallback(userCB(3))
				l.cb3 = true
				registered++
			}
			switch onConnectMode {
			case 1:
				simrt.WaitUntil("gate(OnConnect)", func() bool { return l.gates })
			case 2:
				l.closeCalled++
				c.Close()
			case 3:
				vtime.Sleep(time.Millisecond)
			}
			l.inflight--
			l.connEnd = l.rec("connect-end", 0)
			return ctx
		}))
	}
	if hasOnDisconnect {
		opts = append(opts, WithOnDisconnect(func(ctx context.Context, c Connection) {
			s := l.rec("disconnect", 0)
			l.discCount++
			if hasOnConnect && (l.connEnd < 0 || s < l.connEnd) {
				e.FailP("C09", "disconnect-after-connect", "disconnect-before-connect-end", "OnDisconnect started at step %d before OnConnect had finished (end=%d)", s, l.connEnd)
			}
			if l.firstCBSeq >= 0 {
				e.FailP("C09", "close-callbacks-last", "disconnect-after-closecb", "OnDisconnect started at step %d after the first close callback (step %d)", s, l.firstCBSeq)
			}
		}))
	}
	reqIdx := 0
	var onReq OnRequest
	if hasOnRequest {
		onReq = func(ctx context.Context, c Connection) error {
			s := l.rec("req-start", 0)
			l.reqStarts++
			l.inflight++
			if l.inflight > 1 {
				e.FailP("C06", "handler-serial", "two-handlers", "a second handler invocation started at step %d while one is in progress", s)
			}
			if hasOnConnect && (l.connEnd < 0 || s < l.connEnd) {
				e.FailP("C09", "connect-before-request", "request-before-connect-end", "OnRequest started at step %d before OnConnect finished (end=%d)", s, l.connEnd)
			}
			if l.firstCBSeq >= 0 {
				e.FailP("C09", "close-callbacks-last", "request-after-closecb", "OnRequest started at step %d after the first close callback (step %d)", s, l.firstCBSeq)
			}
			st := script[len(script)-1]
			if reqIdx < len(script) {
				st = script[reqIdx]
			}
			reqIdx++
			rd := c.Reader()
			have := rd.Len()
			k := have
			if st.consume > 0 && st.consume < have {
				k = st.consume
			}
			var echo []byte
			if k > 0 {
				p, err := rd.Next(k)
				if err != nil {
					e.FailP("C06", "handler-read", "handler-next-error", "Next(%d) inside the handler with Len()=%d failed: %v", k, have, err)
				} else if bad := checkStream(lifeStream, l.consumed, p); bad >= 0 {
					e.FailP("C04", "stream-intact", "handler-content", "handler read %d bytes at stream position %d: byte %d differs", k, l.consumed, bad)
				}
				echo = append(echo, p...)
				l.consumed += k
				rd.Release()
			}
			if st.past {
				// a read that needs more than is buffered, with a deadline already in the past: it reports
				// a timeout at once (or succeeds when the bytes have arrived meanwhile) and leaves nothing behind
				c.SetReadDeadline(time.Unix(0, simrt.UnixNano()-1))
				want := rd.Len() + 1 + e.Intn(8)
				if p, err := rd.Next(want); err == nil {
					if bad := checkStream(lifeStream, l.consumed, p); bad >= 0 {
						e.FailP("C04", "stream-intact", "handler-content", "handler read %d bytes at stream position %d: byte %d differs", want, l.consumed, bad)
					}
					l.consumed += want
					k += want
					rd.Release()
				}
				c.SetReadDeadline(time.Time{})
			}
			if st.gate {
				simrt.WaitUntil("gate(OnRequest)", func() bool { return l.gates })
			}
			if st.echo && len(echo) > 0 {
				c.Writer().WriteBinary(echo)
				c.Writer().Flush()
			}
			if st.close || k == 0 {
				l.closeCalled++
				c.Close()
			}
			l.inflight--
			l.lastReqEnd = l.rec("req-end", k)
			if st.panic {
				l.closeCalled++ // netpoll closes the connection of a panicking handler
				panic("harness: scripted handler panic")
			}
			return nil
		}
	}

	ln, path := e.NewRawListener("life")
	evl, _ := NewEventLoop(onReq, opts...)
	e.StartServer(evl, ln)

	// IsActive monotonicity, sampled after every step
	simrt.SetMonitor(func() {
		c := l.conn
		if c == nil {
			return
		}
		cv := atomic.LoadInt32(&c.keychain[closing])
		act := cv == 0
		if !act && l.firstClosedBy == 0 {
			l.firstClosedBy = cv
		}
		if !act {
			l.activeWent = true
		} else if l.activeWent && !l.reactivated {
			l.reactivated = true
			e.FailP("C05", "isactive-monotone", "isactive-true-after-false", "IsActive() is true again at step %d after having been false", simrt.Step())
		}
	})

	// ---- the peer
	peer := -1
	peerDone := false
	peerWrote := 0
	peerEndSeq := -1
	simrt.GoNamed("peer", false, func() {
		fd, err := vsys.HConnectUnix(path)
		if err != nil {
			peerDone = true // the listener is already gone (Shutdown came first): nothing to observe
			return
		}
		peer = fd
		data := streamBytes(lifeStream, 0, total)
		off := 0
		for off < len(data) {
			n := 1 + e.Intn(1+e.Pick(1, 5, 30, 300, 6000))
			if n > len(data)-off {
				n = len(data) - off
			}
			if pauses && e.Chance(1, 3) {
				simrt.Sleep(int64(e.Pick(1, 2, 10)) * int64(time.Millisecond) / 2)
			}
			w, err := PeerWriteAll(fd, data[off:off+n], func(r int) int { return r })
			off += w
			peerWrote = off
			if err != nil {
				break
			}
		}
		if pauses && e.Chance(1, 3) {
			simrt.Sleep(int64(e.Pick(1, 10)) * int64(time.Millisecond))
		}
		switch ending {
		case 1, 3:
			// 3: unread echo data in our receive queue turns the close into a reset
			vsys.HClose(fd)
			peer = -1
			peerEndSeq = simrt.Step()
		case 2:
			vsys.HShutdown(fd, 1)
			peerEndSeq = simrt.Step()
		}
		peerDone = true
	})

	// ---- user closers
	over := false
	for k := 0; k < nClosers; k++ {
		k := k
		useDetach := detach && k == 0
		simrt.GoNamed("closer", false, func() {
			// a closer acts on a connection the server has handed out (tracked, callbacks registered);
			// Close racing with the accept path itself is the business of the C13 scenarios
			simrt.WaitUntil("connection accepted", func() bool {
				svr := evl.(*eventLoop).svr
				return over || (l.conn != nil && l.prepEnd >= 0 && svr != nil && svr.connections.Len() > 0)
			})
			if over {
				return // the connection never came to be tracked (closed during its accept): nothing to close
			}
			if e.Chance(1, 2) {
				simrt.Sleep(int64(e.Pick(1, 3, 20)) * int64(time.Millisecond) / 2)
			}
			l.rec("user-close", k)
			l.closeCalled++
			if useDetach {
				l.detached = true
				l.detachSeq = simrt.Step()
				l.conn.Detach()
			} else {
				l.conn.Close()
			}
		})
	}
	shutdownDone := false
	if withShutdown {
		simrt.GoNamed("shutdown", false, func() {
			simrt.Sleep(int64(e.Pick(1, 5, 30)) * int64(time.Millisecond) / 2)
			ctx, cancel := simrt.WithTimeout(context.Background(), time.Duration(e.Pick(10, 200))*time.Millisecond)
			l.shutdownRan = true // Shutdown may close idle connections on the user's behalf
			evl.Shutdown(ctx)
			cancel()
			shutdownDone = true
		})
	}

	// ---- phase 1: run dry, then open the gates, run dry again
	simrt.WaitQuiescent(true)
	l.gates = true
	simrt.WaitQuiescent(true)
	_, _ = shutdownDone, peerEndSeq
	e.nonTriv = l.conn != nil && (peerWrote > 0 || nClosers > 0 || ending != 0)

	if l.conn != nil {
		l.checkStable(hasOnRequest, hasOnConnect, hasOnDisconnect, ending, peerWrote, peerDone, registered)
	}
	// ---- phase 2: whoever is left gets closed by the user; then everything must be torn down
	if l.conn != nil {
		if !l.detached {
			l.closeCalled++
			l.rec("final-close", 0)
			l.conn.Close()
		}
		simrt.WaitQuiescent(true)
		l.checkTornDown(registered)
	}
	if peer >= 0 {
		vsys.HClose(peer)
	}
	over = true // lets tasks that are still waiting for something that never happened finish
	simrt.WaitQuiescent(false)
	simrt.SetMonitor(nil)
	e.Teardown()
	l.checkDescriptors()
	e.Hist = l.hist
	e.State = fmt.Sprintf("%d/%d/%d/%d/%v", len(l.hist), l.reqStarts, l.consumed, l.discCount, l.cbOrder)
}

// checkStable evaluates the oracles that hold once nothing can move any more (gates open,
// timers run dry, peer finished).
func (l *lifeRun) checkStable(hasOnRequest, hasOnConnect, hasOnDisconnect bool, ending, peerWrote int, peerDone bool, registered int) {
	e := l.e
	c := l.conn
	reallyClosedByUser := l.closeCalled > 0
	userClosed := reallyClosedByUser || l.shutdownRan
	closedBy := atomic.LoadInt32(&c.keychain[closing])
	// C06: no stranded input
	if hasOnRequest && !userClosed && closedBy != user {
		if n := c.inputBuffer.Len(); n > 0 && l.inflight == 0 {
			e.FailP("C06", "no-stranded-input", "stranded-input", "%d bytes are buffered at quiescence, the connection has a request handler, nobody closed it, and no invocation is in progress or will start without a further network event (handler invocations so far: %d)", n, l.reqStarts)
		}
	}
	// C06: peer closed => everything it sent was offered to the handler before the close callbacks
	if hasOnRequest && !userClosed && peerDone && ending != 0 && ending != 3 && closedBy != none {
		if l.consumed != peerWrote {
			phase := "established"
			if hasOnConnect && l.connStart < 0 {
				phase = "before-onconnect-started"
			}
			e.FailP("C06", "input-offered-before-close", "input-lost-at-peer-close/"+phase, "the peer sent %d bytes and closed; the handler was offered only %d before the connection was torn down (OnConnect configured=%v, started=%v)", peerWrote, l.consumed, hasOnConnect, l.connStart >= 0)
		}
		if l.firstCBSeq >= 0 && l.lastReqEnd > l.firstCBSeq {
			e.FailP("C06", "input-offered-before-close", "handler-after-closecb", "a handler invocation ended at step %d after the first close callback (step %d)", l.lastReqEnd, l.firstCBSeq)
		}
	}
	// C09: OnPrepare finished before the connection could receive events
	addSeq := -1
	for _, ev := range vsys.Events {
		if ev.Name == "epoll_ctl" && ev.FD == l.fd && ev.N == 1 /* EPOLL_CTL_ADD */ && ev.Err == 0 {
			addSeq = ev.Step
			break
		}
	}
	if addSeq >= 0 && l.prepEnd >= 0 && addSeq < l.prepEnd {
		e.FailP("C09", "prepare-before-registration", "registered-before-prepare-end", "the connection was registered with the poller at step %d, OnPrepare ended at step %d", addSeq, l.prepEnd)
	}
	// C09: the peer closed an established connection nobody else closed => OnDisconnect exactly once
	if hasOnDisconnect {
		if l.discCount > 1 {
			e.FailP("C09", "disconnect-at-most-once", "disconnect-twice", "OnDisconnect ran %d times", l.discCount)
		}
		if !userClosed && peerDone && (ending == 1 || ending == 2 || ending == 3) && closedBy != none {
			if (hasOnConnect && l.connEnd >= 0 || !hasOnConnect) && l.discCount != 1 {
				e.FailP("C09", "disconnect-exactly-once", "disconnect-lost", "the peer closed a connection whose OnConnect %s and nobody else closed it, but OnDisconnect ran %d times", map[bool]string{true: "had run", false: "is not configured"}[hasOnConnect], l.discCount)
			}
		}
		// the same when the user closed as well, but only after the peer's hang-up had closed the connection
		if userClosed && l.firstClosedBy == poller && peerDone && (ending == 1 || ending == 2 || ending == 3) && !l.detached {
			if (hasOnConnect && l.connEnd >= 0 || !hasOnConnect) && l.discCount != 1 {
				e.FailP("C09", "disconnect-exactly-once", "disconnect-lost/user-closed-afterwards", "the peer's hang-up closed a connection whose OnConnect %s (a user Close came later), but OnDisconnect ran %d times", map[bool]string{true: "had run", false: "is not configured"}[hasOnConnect], l.discCount)
			}
		}
	}
	// C05: once some closer has acted (user close, or peer close with callbacks configured) the
	// close callbacks have run
	pollerCloses := closedBy != none && (hasOnConnect || hasOnRequest)
	if (reallyClosedByUser || pollerCloses) && !l.detachedOnly() {
		for k := 0; k < 4; k++ {
			if k != 3 && l.cbRegistered(k, registered) && l.cbRuns[k] == 0 && l.inflight == 0 {
				e.FailP("C05", "close-callbacks-ran", "closecb-never-ran", "the connection was closed (user closes=%d, closed by=%d) and nothing can move any more, but close callback %d never ran", l.closeCalled, closedBy, k)
				break
			}
		}
	}
}

func (l *lifeRun) detachedOnly() bool { return false }

// cbRegistered reports whether user callback k was registered in this run.
func (l *lifeRun) cbRegistered(k, registered int) bool {
	if k == 3 {
		return l.cb3
	}
	return k < l.nUserCB && l.prepEnd >= 0
}

// checkTornDown: after the final user Close everything must have happened exactly once.
func (l *lifeRun) checkTornDown(registered int) {
	e := l.e
	for k := 0; k < 4; k++ {
		if !l.cbRegistered(k, registered) {
			continue
		}
		if k == 3 && l.cbRuns[k] <= 1 {
			continue // registered from OnConnect, possibly concurrently with a Close: at most once
		}
		if l.cbRuns[k] != 1 && l.inflight == 0 {
			e.FailP("C05", "close-callback-exactly-once", fmt.Sprintf("closecb-ran-%d-times", l.cbRuns[k]), "close callback %d ran %d times (order of runs %v)", k, l.cbRuns[k], l.cbOrder)
			return
		}
	}
	// reverse order of registration: 3 (added in OnConnect) first, then nUserCB-1 .. 0
	last := 99
	for _, k := range l.cbOrder {
		if k > last {
			e.FailP("C05", "close-callback-order", "closecb-order", "close callbacks ran in order %v, registration order was ascending", l.cbOrder)
			return
		}
		last = k
	}
	// descriptor closed exactly once by netpoll; never once Detach has been invoked
	closes, closesAfterDetach := 0, 0
	for _, ev := range vsys.Events {
		if (ev.Name == "close" || ev.Name == "close!bad") && ev.FD == l.fd {
			closes++
			if l.detached && l.firstClosedBy == user {
				closesAfterDetach++
			}
		}
	}
	if l.inflight == 0 {
		if closes > 1 {
			e.FailP("C05", "descriptor-closed-once", "fd-closed-twice", "netpoll issued close on the connection's descriptor %d times", closes)
		} else if l.detached && closesAfterDetach > 0 {
			e.FailP("C05", "descriptor-closed-once", "fd-closed-after-detach", "Detach was the first to close the connection, yet netpoll closed its descriptor")
		} else if !l.detached && closes == 0 {
			e.FailP("C05", "descriptor-closed-once", "fd-never-closed", "the connection was closed and torn down but netpoll never closed its descriptor")
		}
	}
	if l.detached && l.fd < vsys.MaxFD && vsys.FDs[l.fd].Open && vsys.FDs[l.fd].Owner == vsys.OwnNetpoll {
		vsys.Disown(l.fd)
		vsys.HClose(l.fd)
	}
}

// checkDescriptors is the C15 ledger verdict plus the poller-slot audit of C05/C10.
func (l *lifeRun) checkDescriptors() {
	e := l.e
	CheckLedger(e)
}

// CheckLedger reports C15 violations recorded by the descriptor ledger. Call after Teardown.
func CheckLedger(e *Env) {
	for _, bc := range vsys.BadCloses {
		what := "a descriptor that is not open"
		if bc.Arg == vsys.OwnHarness {
			what = "a descriptor it does not own"
		} else if bc.Arg == vsys.OwnNetpoll {
			what = "a descriptor twice"
		}
		e.FailP("C15", "close-only-own-descriptors", "bad-close", "netpoll closed %s (number %d) at step %d", what, bc.FD, bc.Step)
		return
	}
	if dmg := vsys.CheckTripwires(); len(dmg) > 0 {
		e.FailP("C15", "close-only-own-descriptors", "tripwire-closed", "descriptor number(s) %v, reused by somebody else after netpoll's close, were closed again", dmg)
		return
	}
	vsys.Reconcile()
	var open []string
	for fd := range vsys.FDs {
		if vsys.FDs[fd].Open && vsys.FDs[fd].Owner == vsys.OwnNetpoll {
			open = append(open, fmt.Sprintf("%d(%s)", fd, vsys.FDs[fd].Kind))
		}
	}
	if len(open) > 0 {
		e.FailP("C15", "no-descriptor-left", "fd-leak/"+kindsOf(open), "after every connection, listener and poller was closed netpoll still holds %v", open)
	}
}

func kindsOf(open []string) string {
	if len(open) == 0 {
		return "?"
	}
	s := open[0]
	if i := indexByte(s, '('); i >= 0 {
		return s[i+1 : len(s)-1]
	}
	return s
}

func indexByte(s string, c byte) int {
	for i := 0; i < len(s); i++ {
		if s[i] == c {
			return i
		}
	}
	return -1
}

// ---------------------------------------------------------------------------------------------
// c05_prepare: teardown of connections that never get (or lose at once) their poller registration:
// closed by OnPrepare itself, or rejected because the registration fails.

func init() {
	registerScenario(&Scenario{Name: "c05_prepare", Property: "C05", MaxSteps: 12000, Run: runC05Prepare,
		Desc: "a server whose OnPrepare registers 1-3 close callbacks and then, per connection, closes it at once, lets its registration with the poller fail (epoll_ctl ADD error), or lets it through; 1-4 clients; every close callback exactly once, descriptor closed, nothing tracked, Shutdown returns"})
}

func runC05Prepare(e *Env) {
	e.Setup(1+e.Intn(2), false)
	nclients := 1 + e.Intn(4)
	var conns []*c05pConn
	hows := make([]int, nclients)
	for i := range hows {
		hows[i] = e.Intn(4) // 3: let through, then detached by the user once accepted
	}
	requests := 0
	evl, _ := NewEventLoop(func(ctx context.Context, c Connection) error {
		requests++
		r := c.Reader()
		r.Skip(r.Len())
		r.Release()
		return nil
	}, WithOnPrepare(func(c Connection) context.Context {
		x := &c05pConn{c: c.(*connection), peer: -1}
		x.fd = x.c.fd
		if len(conns) < len(hows) {
			x.how = hows[len(conns)]
		}
		conns = append(conns, x)
		n := 1 + e.Intn(3)
		x.cbs = make([]int, n)
		for k := 0; k < n; k++ {
			k := k
			c.AddCloseCallback(func(Connection) error { x.cbs[k]++; return nil })
		}
		switch x.how {
		case 1:
			c.Close()
		case 2:
			vsys.K.EpollCtlAddFail = 256 // the registration that follows OnPrepare fails
		}
		simrt.Publish()
		return nil
	}))
	ln, path := e.NewRawListener("c05p")
	e.StartServer(evl, ln)
	var peers []int
	var detachedIdx []int
	for i := 0; i < nclients; i++ {
		before := len(conns)
		p, err := vsys.HConnectUnix(path)
		if err != nil {
			panic("harness: connect: " + err.Error())
		}
		peers = append(peers, p)
		// one accept at a time, so that the fault knob hits the registration it is meant for
		simrt.WaitUntil("prepared", func() bool { return len(conns) > before })
		simrt.WaitQuiescentFor(1e9)
		vsys.K.EpollCtlAddFail = 0
		if e.Bool() {
			vsys.HWrite(p, []byte("hello"))
			simrt.WaitQuiescentFor(1e9)
		}
		if x := conns[len(conns)-1]; x.how == 3 && x.c.IsActive() {
			// the user takes the descriptor back: the registration with the poller has to be gone afterwards
			// (whatever this poller slot was used for before) and the descriptor stays open
			x.c.Detach()
			simrt.WaitQuiescentFor(1e9)
			if x.fd < vsys.MaxFD && vsys.FDs[x.fd].Open && vsys.FDs[x.fd].EpollIn != 0 {
				e.Fail("registration-released", "detached-still-registered", "connection %d was detached by its user but its descriptor %d is still registered with the poller", len(conns)-1, x.fd)
			}
			if x.fd < vsys.MaxFD && !vsys.FDs[x.fd].Open {
				e.Fail("descriptor-closed-once", "fd-closed-after-detach", "connection %d was detached by its user, yet netpoll closed its descriptor %d", len(conns)-1, x.fd)
			}
			for k, n := range x.cbs {
				if n != 1 {
					e.Fail("closecb-exactly-once", fmt.Sprintf("prepare-closecb-%d-times", n), "connection %d was detached: its close callback %d ran %d times", len(conns)-1, k, n)
					break
				}
			}
			if vsys.FDs[x.fd].Open && vsys.FDs[x.fd].Owner == vsys.OwnNetpoll {
				vsys.Disown(x.fd) // the user's descriptor now; it stays open while later connections come and go
			}
			detachedIdx = append(detachedIdx, len(conns)-1)
		}
	}
	// the peers of the detached connections keep talking, or hang up: nobody else may hear that
	for _, i := range detachedIdx {
		vsys.HWrite(peers[i], []byte("after-detach"))
		if e.Bool() {
			vsys.HClose(peers[i])
			peers[i] = -1
		}
	}
	if len(detachedIdx) > 0 {
		simrt.WaitQuiescentFor(1e9)
	}
	e.nonTriv = true
	for i, x := range conns {
		if x.how == 0 || x.how == 3 {
			continue
		}
		what := map[int]string{1: "closed by its OnPrepare", 2: "rejected because its registration failed"}[x.how]
		for k, n := range x.cbs {
			if n != 1 {
				e.Fail("closecb-exactly-once", fmt.Sprintf("prepare-closecb-%d-times", n), "connection %d was %s: its close callback %d ran %d times", i, what, k, n)
				break
			}
		}
		if x.fd < vsys.MaxFD && vsys.FDs[x.fd].Open && vsys.FDs[x.fd].Owner == vsys.OwnNetpoll && x.c.fd == x.fd && !fdReused(conns, i) {
			e.FailP("C15", "no-descriptor-left", "prepare-fd-open", "connection %d was %s but its descriptor %d is still open", i, what, x.fd)
		}
		if x.c.IsActive() {
			e.Fail("inactive-after-close", "prepare-still-active", "connection %d was %s but IsActive() is true", i, what)
		}
	}
	// connections that were let through and whose peer is still there must not have been disturbed by
	// what happened to the others (C10)
	for i, x := range conns {
		if x.how != 0 || i >= len(peers) || peers[i] < 0 {
			continue
		}
		ran := 0
		for _, n := range x.cbs {
			ran += n
		}
		if !x.c.IsActive() || ran != 0 {
			e.FailP("C10", "bystander-untouched", "prepare-bystander-closed", "connection %d was accepted normally and its peer is connected, but it is inactive (active=%v, close callbacks ran %d times) after other connections on its poller were closed by OnPrepare, rejected or detached", i, x.c.IsActive(), ran)
		}
	}
	for _, i := range detachedIdx {
		if fd := conns[i].fd; fd < vsys.MaxFD && vsys.FDs[fd].Open && vsys.FDs[fd].Owner != vsys.OwnNetpoll {
			vsys.HClose(fd)
		}
	}
	// the rest goes down with the server
	done := false
	simrt.GoNamed("shutdown", false, func() {
		ctx, cancel := simrt.WithTimeout(context.Background(), 2*time.Second)
		evl.Shutdown(ctx)
		cancel()
		done = true
	})
	simrt.WaitQuiescentFor(5e9)
	if !done {
		e.FailP("C13", "shutdown-terminates", "prepare-shutdown-stuck", "Shutdown has not returned although every connection is idle; tasks=%v", simrt.TaskStates())
	}
	for i, x := range conns {
		for k, n := range x.cbs {
			if n != 1 {
				e.Fail("closecb-exactly-once", fmt.Sprintf("prepare-closecb-%d-times", n), "connection %d (how=%d): its close callback %d ran %d times after Shutdown", i, x.how, k, n)
				break
			}
		}
	}
	for _, p := range peers {
		if p >= 0 {
			vsys.HClose(p)
		}
	}
	simrt.WaitQuiescentFor(1e9)
	e.Summary = fmt.Sprintf("pollers=%d clients=%d hows=%v requests=%d", e.Pollers, nclients, hows, requests)
	e.State = fmt.Sprint(hows)
	e.Teardown()
	CheckLedger(e)
}

// fdReused reports whether a later connection got the descriptor number of connection i.
func fdReused(conns []*c05pConn, i int) bool {
	for j := i + 1; j < len(conns); j++ {
		if conns[j].fd == conns[i].fd {
			return true
		}
	}
	return false
}

type c05pConn struct {
	c    *connection
	fd   int
	how  int // 0 pass, 1 close in OnPrepare, 2 registration fails
	cbs  []int
	peer int
}

// ---------------------------------------------------------------------------------------------
// c06_late: SetOnRequest on a client connection at any moment relative to the arrival of input and
// to the peer's hang-up (C06's quantifier names "SetOnRequest on a client connection with data
// already buffered").

func init() {
	registerScenario(&Scenario{Name: "c06_late", Property: "C06", MaxSteps: 60000, Run: runC06Late,
		Desc: "a client connection (FD or dialled) without request handler; its peer sends 1-3 chunks and stays or closes; SetOnRequest is called at a seeded moment (before, between or after the chunks, before or after the hang-up); the handler takes some bytes per call; every byte must be offered to it, serially, before the close callbacks run"})
}

func runC06Late(e *Env) {
	e.Setup(1+e.Intn(2), e.Chance(1, 3))
	mode := modeFD
	if e.Chance(1, 3) {
		mode = modeDial
	}
	conn, peer := e.NewConnMode(mode)
	const stream = 61
	chunks := 1 + e.Intn(3)
	sizes := make([]int, chunks)
	total := 0
	for i := range sizes {
		sizes[i] = e.Pick(1, 5, 64, 700)
		total += sizes[i]
	}
	peerCloses := e.Chance(2, 3)
	setAt := e.Intn(4) // 0 at once, 1 after a sleep, 2 once everything has arrived, 3 once the peer has hung up (or everything arrived)
	perCall := e.Pick(1, 4, 1000)
	consumed, inflight, maxInflight, calls := 0, 0, 0, 0
	closeCBs, closeCBAtConsumed := 0, -1
	bad := false
	conn.AddCloseCallback(func(Connection) error {
		closeCBs++
		closeCBAtConsumed = consumed
		if inflight > 0 {
			e.FailP("C05", "no-close-callback-during-handler", "closecb-during-handler", "close callback ran while the handler is in progress")
		}
		return nil
	})
	sent, peerDone := 0, false
	simrt.GoNamed("peer", false, func() {
		for _, n := range sizes {
			if e.Bool() {
				simrt.Sleep(int64(e.Pick(0, 1, 3)) * 100000)
			}
			w, _ := PeerWriteAll(peer, streamBytes(stream, sent, n), func(r int) int { return r })
			sent += w
		}
		if peerCloses {
			if e.Bool() {
				simrt.Sleep(int64(e.Pick(0, 1, 3)) * 100000)
			}
			vsys.HClose(peer)
			peer = -1
		}
		peerDone = true
	})
	handler := func(ctx context.Context, c Connection) error {
		inflight++
		calls++
		if inflight > maxInflight {
			maxInflight = inflight
		}
		r := c.Reader()
		n := r.Len()
		if n > perCall {
			n = perCall
		}
		if n > 0 {
			p, err := r.Next(n)
			if err == nil {
				if checkStream(stream, consumed, p) >= 0 && !bad {
					bad = true
					e.FailP("C04", "stream-intact", "late-handler-content", "the handler was offered bytes that differ from what the peer sent at position %d", consumed)
				}
				consumed += len(p)
			}
			r.Release()
		}
		if e.Chance(1, 4) {
			simrt.Sleep(int64(e.Pick(1, 2)) * 100000)
		}
		inflight--
		return nil
	}
	setDone := false
	simrt.GoNamed("setter", false, func() {
		switch setAt {
		case 1:
			simrt.Sleep(int64(e.Pick(0, 1, 2, 5)) * 100000)
		case 2:
			simrt.WaitUntil("all input buffered", func() bool { return conn.inputBuffer.Len() >= total })
		case 3:
			simrt.WaitUntil("peer gone or all input buffered", func() bool { return !conn.IsActive() || (peerDone && conn.inputBuffer.Len() >= total) })
		}
		conn.SetOnRequest(handler)
		setDone = true
	})
	simrt.WaitQuiescentFor(3e9)
	e.nonTriv = true
	e.Summary = fmt.Sprintf("mode=%d sizes=%v peerCloses=%v setAt=%d perCall=%d pollers=%d", mode, sizes, peerCloses, setAt, perCall, e.Pollers)
	e.State = fmt.Sprint(mode, chunks, peerCloses, setAt, perCall)
	if !setDone {
		e.Fail("handler-started", "setonrequest-stuck", "SetOnRequest has not returned; tasks=%v", simrt.TaskStates())
	}
	if maxInflight > 1 {
		e.Fail("serial-handler", "handler-overlap", "%d OnRequest invocations were in progress at once", maxInflight)
	}
	if setDone && peerDone && consumed+0 < sent && inflight == 0 {
		left := conn.inputBuffer.Len()
		e.Fail("no-stranded-input", "late-handler-stranded", "the peer sent %d bytes, the handler (set %s) was called %d times and offered %d; %d are buffered, no invocation is in progress and everything is at rest (peer closed: %v, close callbacks ran: %d)", sent, []string{"at once", "after a pause", "once all input was buffered", "once the peer had hung up"}[setAt], calls, consumed, left, peerCloses, closeCBs)
	}
	if closeCBs > 0 && closeCBAtConsumed < sent && peerDone {
		e.Fail("input-offered-before-close", "late-handler-closed-early", "the close callbacks ran when the handler had been offered %d of the %d bytes the peer sent before it closed", closeCBAtConsumed, sent)
	}
	if peerCloses && setDone && peerDone && closeCBs != 1 {
		e.FailP("C05", "closecb-exactly-once", fmt.Sprintf("late-handler-closecb-%d-times", closeCBs), "the peer closed a connection that has a request handler; its close callback ran %d times", closeCBs)
	}
	conn.Close()
	if peer >= 0 {
		vsys.HClose(peer)
	}
	simrt.WaitQuiescentFor(2e9)
	e.Teardown()
	CheckLedger(e)
}
