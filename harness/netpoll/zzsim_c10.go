//go:build go1.22

package netpoll

// C10 - connections are isolated from each other across slot and descriptor reuse.
// C11 - the poller dispatches each descriptor's events completely and in order (second scenario).

import (
	"fmt"
	"sync/atomic"
	"syscall"
	"time"

	"verif.local/simrt"
	"verif.local/simrt/vsys"
)

func init() {
	registerScenario(&Scenario{Name: "c10_isolation", Property: "C10", MaxSteps: 30000, Run: runC10,
		Desc: "generations of connections over one poller and a small descriptor pool: open, traffic, close (user or peer), reopen (reusing slot and descriptor number), with stale calls (Release, Close, reads, writes, Flush) on closed connections at any step"})
	registerScenario(&Scenario{Name: "c11_poller", Property: "C11", MaxSteps: 60000, Run: runC11,
		Desc: "the real defaultPoll with harness-owned FDOperators recording every callback; 1-140 descriptors; peers that write, half-close, close, reset in any order; Detach, Trigger and Close of the poller from other tasks"})
}

type c10Conn struct {
	id       int
	c        *connection
	fd       int
	peer     int
	stream   int
	wrote    int
	got      int
	closed   bool
	closedBy string
	cbRuns   int
	readerT  *simrt.Task
	readErr  error
	bad      bool
}

func runC10(e *Env) {
	faults := e.Chance(1, 3)
	e.Setup(1, faults)
	gens := 2 + e.Intn(3)
	var all []*c10Conn
	staleStop := false
	// the stale caller: keeps calling methods on connections that have been closed
	staleCalls := 0
	simrt.GoNamed("stale", false, func() {
		for !staleStop && staleCalls < 16 {
			staleCalls++
			simrt.WaitUntil("a closed connection or stop", func() bool {
				if staleStop {
					return true
				}
				for _, x := range all {
					if x.closed {
						return true
					}
				}
				return false
			})
			if staleStop {
				return
			}
			var closed []*c10Conn
			for _, x := range all {
				if x.closed {
					closed = append(closed, x)
				}
			}
			x := closed[e.Intn(len(closed))]
			k := e.Intn(8)
			if !x.readerT.Exited() && (k <= 1 || k == 3 || k == 7) {
				k = 2 // one reader per connection: reader-side calls only once its own reader is gone
			}
			switch k {
			case 0, 1:
				x.c.Release()
			case 2:
				x.c.Close()
			case 3:
				x.c.SetReadTimeout(time.Millisecond)
				x.c.Next(1 + x.c.Len())
			case 4:
				x.c.Write([]byte("stale"))
			case 5:
				x.c.Flush()
			case 6:
				x.c.Len()
			case 7:
				x.c.Skip(1)
			}
			if e.Chance(1, 2) {
				simrt.Sleep(int64(e.Pick(1, 2, 5)) * 200000)
			}
			if e.Chance(1, 6) {
				// bounded number of stale calls per wake-up: let others run dry in between
				simrt.Sleep(int64(time.Millisecond))
			}
		}
	})

	for g := 0; g < gens; g++ {
		x := &c10Conn{id: g, stream: 100 + g}
		c, peer := e.NewPair(0)
		x.c, x.peer, x.fd = c, peer, c.fd
		c.AddCloseCallback(func(Connection) error { x.cbRuns++; return nil })
		all = append(all, x)
		total := e.Pick(1, 20, 300, 5000)
		closeMode := e.Intn(4) // 0 stay open until the end, 1 user close, 2 peer close, 3 both
		// reader of this connection
		x.readerT = simrt.GoNamed(fmt.Sprintf("reader%d", g), false, func() {
			for {
				n := 1 + e.Intn(64)
				p, err := x.c.Next(n)
				if err != nil {
					x.readErr = err
					// drain what is buffered
					if l := x.c.Len(); l > 0 && x.closedBy != "user" {
						if q, err2 := x.c.Next(l); err2 == nil {
							if bad := checkStream(x.stream, x.got, q); bad >= 0 && !x.bad {
								x.bad = true
								e.Fail("no-foreign-data", "foreign-data", "connection %d (fd %d) read a byte at position %d that its own peer never sent", x.id, x.fd, x.got+bad)
							}
							x.got += len(q)
						}
					}
					return
				}
				if x.closedBy != "user" {
					if bad := checkStream(x.stream, x.got, p); bad >= 0 && !x.bad {
						x.bad = true
						e.Fail("no-foreign-data", "foreign-data", "connection %d (fd %d) read a byte at position %d that its own peer never sent", x.id, x.fd, x.got+bad)
					}
				}
				x.got += len(p)
				x.c.Release()
			}
		})
		// its peer
		simrt.GoNamed(fmt.Sprintf("peer%d", g), false, func() {
			data := streamBytes(x.stream, 0, total)
			off := 0
			for off < len(data) {
				n := 1 + e.Intn(1+e.Pick(3, 40, 900))
				if n > len(data)-off {
					n = len(data) - off
				}
				w, err := PeerWriteAll(x.peer, data[off:off+n], func(r int) int { return r })
				off += w
				x.wrote = off
				if err != nil {
					return
				}
				if e.Chance(1, 4) {
					simrt.Sleep(int64(e.Pick(1, 3)) * 300000)
				}
			}
			if closeMode >= 2 {
				if x.closedBy == "" {
					x.closedBy = "peer"
				}
				vsys.HClose(x.peer)
				x.peer = -1
			}
		})
		if closeMode == 1 || closeMode == 3 {
			simrt.GoNamed(fmt.Sprintf("closer%d", g), false, func() {
				simrt.Sleep(int64(e.Pick(0, 1, 3, 10)) * 300000)
				x.closedBy = "user"
				if e.LocalCloseAt < 0 {
					e.LocalCloseAt, e.ReaderTask = simrt.Step(), "reader"
				}
				x.c.Close()
				x.closed = true
			})
		}
		// let this generation live for a while, then go on: the next pair reuses what was released
		// ... or, half of the time, the next one is opened while the poller is busy with this one
		// (a slot released by a close can be handed to the new connection in the middle of a batch)
		if e.Chance(1, 2) {
			simrt.Sleep(int64(e.Pick(0, 1, 3, 10, 30)) * 100000)
		} else {
			simrt.WaitQuiescentFor(int64(e.Pick(1, 5, 50)) * int64(time.Millisecond))
		}
		for _, y := range all {
			if y.closedBy == "peer" && !y.c.IsActive() && !y.closed {
				// documented: a peer-closed connection without callbacks waits for the user's Close
				y.c.Close()
				y.closed = true
			}
		}
		checkSlots(e, all)
	}
	simrt.WaitQuiescentFor(3e9)
	e.nonTriv = true
	// every connection that is still open has received everything its peer wrote, and nothing else
	for _, x := range all {
		if x.closedBy == "" {
			if x.got+x.c.Len() != x.wrote {
				e.Fail("bystander-receives", "bystander-starved", "connection %d (fd %d) is open, its peer wrote %d bytes, it consumed %d and has %d buffered: it is being ignored or was robbed", x.id, x.fd, x.wrote, x.got, x.c.Len())
			}
			if x.cbRuns != 0 {
				e.Fail("callbacks-own", "foreign-close-callback", "the close callback of open connection %d ran %d times", x.id, x.cbRuns)
			}
		}
		if x.got > x.wrote {
			e.Fail("no-foreign-data", "more-than-sent", "connection %d consumed %d bytes, its peer wrote %d", x.id, x.got, x.wrote)
		}
	}
	checkSlots(e, all)
	staleStop = true
	for _, x := range all {
		if !x.closed {
			x.c.Close()
			x.closed = true
		}
		if x.peer >= 0 {
			vsys.HClose(x.peer)
		}
	}
	simrt.WaitQuiescentFor(3e9)
	for _, x := range all {
		if x.cbRuns != 1 {
			e.Fail("callbacks-own", fmt.Sprintf("closecb-%d-times", x.cbRuns), "the close callback of connection %d ran %d times", x.id, x.cbRuns)
		}
		if !x.readerT.Exited() {
			e.Fail("closes-cleanly", "reader-stuck", "the reader of connection %d is still blocked after everything was closed", x.id)
		}
	}
	e.Summary = fmt.Sprintf("gens=%d faults=%v", gens, faults)
	for _, x := range all {
		e.Summary += fmt.Sprintf(" c%d{fd=%d wrote=%d got=%d by=%s}", x.id, x.fd, x.wrote, x.got, x.closedBy)
	}
	e.State = fmt.Sprint(gens, len(all))
	e.Teardown()
	CheckLedger(e)
}

// checkSlots: a poller slot has a single owner at a time, and no slot on the free chain is
// referenced by a live connection.
func checkSlots(e *Env, all []*c10Conn) {
	// one look at the world without a scheduling point in between (IsActive is a yielding atomic in
	// the rewritten tree: other tasks would run between the census of the live connections and the
	// walk over the free chain)
	owner := map[*FDOperator]int{}
	for _, x := range all {
		if x.closed || x.c == nil || atomic.LoadInt32(&x.c.keychain[closing]) != 0 {
			continue
		}
		if prev, ok := owner[x.c.operator]; ok {
			e.Fail("slot-single-owner", "slot-two-owners", "connections %d and %d are both live and share one poller slot", prev, x.id)
		}
		owner[x.c.operator] = x.id
		if x.c.operator.FD != x.fd {
			e.Fail("slot-single-owner", "slot-foreign-fd", "live connection %d (fd %d) holds a poller slot that is bound to descriptor %d", x.id, x.fd, x.c.operator.FD)
		}
	}
	for _, p := range pollmanager.polls {
		dp := p.(*defaultPoll)
		steps := 0
		for op := dp.opcache.first; op != nil; op = op.next {
			steps++
			if steps > 100000 {
				e.Fail("slot-single-owner", "free-chain-cycle", "the poller's free-slot chain has a cycle")
				return
			}
			if id, ok := owner[op]; ok {
				e.Fail("slot-single-owner", "live-slot-on-free-chain", "the slot of live connection %d is on the poller's free chain", id)
			}
		}
	}
}

// ---------------------------------------------------------------------------------------------

type c11FD struct {
	id        int
	fd        int
	peer      int
	op        *FDOperator
	stream    int
	wrote     int
	acked     int
	buf       []byte
	hups      int
	hupSeq    int
	detachSeq int // step of the epoll_ctl DEL (-1 none)
	afterHup  int
	userDet   bool
	userDetAt int
	afterDet  int
	peerEnd   string
	bad       bool
	out       []byte
	outAcked  int
	wantOut   bool
}

func runC11(e *Env) {
	faults := e.Chance(1, 2)
	e.Setup(1, faults)
	vsys.K.ErrQueueEAGAIN = e.Bool() // the error queue answers like TCP's in half of the runs
	poll, err := openDefaultPoll()
	if err != nil {
		panic("harness: openDefaultPoll: " + err.Error())
	}
	loopDone := false
	simrt.GoNamed("loop", false, func() {
		poll.Wait()
		loopDone = true
	})
	nfds := e.Pick(1, 2, 3, 5, 8, 140)
	fds := make([]*c11FD, nfds)
	for i := range fds {
		x := &c11FD{id: i, stream: 200 + i, detachSeq: -1, userDetAt: -1}
		a, b := vsys.HSocketpair()
		vsys.Adopt(a)
		x.fd, x.peer = a, b
		op := poll.Alloc()
		op.FD = a
		x.op = op
		x.buf = make([]byte, e.Pick(1, 7, 64, 4096))
		op.Inputs = func(vs [][]byte) [][]byte {
			if x.hups > 0 || (x.userDetAt >= 0 && simrt.Step() > x.userDetAt) {
				x.afterHup++
			}
			vs[0] = x.buf
			return vs[:1]
		}
		op.InputAck = func(n int) error {
			if n > 0 {
				if bad := checkStream(x.stream, x.acked, x.buf[:n]); bad >= 0 && !x.bad {
					x.bad = true
					e.Fail("input-in-order", "input-corrupt", "descriptor %d: byte %d delivered to the input callbacks differs from what the peer wrote at position %d", x.id, bad, x.acked+bad)
				}
				x.acked += n
				if x.hups > 0 {
					e.Fail("input-before-hup", "input-after-hup", "descriptor %d: %d bytes were delivered after its hang-up was reported", x.id, n)
				}
			}
			return nil
		}
		op.Outputs = func(vs [][]byte) ([][]byte, bool) {
			if len(x.out) == 0 {
				poll.Control(op, PollRW2R)
				return nil, false
			}
			vs[0] = x.out
			return vs[:1], false
		}
		op.OutputAck = func(n int) error {
			if n > 0 {
				x.out = x.out[n:]
				x.outAcked += n
			}
			if len(x.out) == 0 {
				poll.Control(op, PollRW2R)
			}
			return nil
		}
		op.OnHup = func(p Poll) error {
			x.hups++
			x.hupSeq = simrt.Step()
			return nil
		}
		if err := poll.Control(op, PollReadable); err != nil {
			panic("harness: register: " + err.Error())
		}
		fds[i] = x
	}
	active := fds
	if nfds > 8 {
		active = fds[:8] // the rest only makes the batch big
	}
	// connect-style descriptors: registered for writability only, edge-triggered (what a dial waits
	// on); the peer stays or goes away. Their events carry OUT, RDHUP and HUP but never IN.
	type c11W struct {
		fd, peer, writes, hups, hupSeq, detachSeq int
		closed                                    bool
	}
	var wfds []*c11W
	for i := 0; i < e.Intn(3); i++ {
		a, b := vsys.HSocketpair()
		vsys.Adopt(a)
		w := &c11W{fd: a, peer: b, detachSeq: -1}
		op := poll.Alloc()
		op.FD = a
		op.OnWrite = func(p Poll) error { w.writes++; return nil }
		op.OnHup = func(p Poll) error { w.hups++; w.hupSeq = simrt.Step(); return nil }
		if err := poll.Control(op, PollWritable); err != nil {
			panic("harness: register: " + err.Error())
		}
		wfds = append(wfds, w)
		if e.Chance(2, 3) {
			simrt.GoNamed("wpeer", false, func() {
				simrt.Sleep(int64(e.Pick(0, 1, 2, 4)) * 300000)
				w.closed = true
				vsys.HClose(w.peer)
				w.peer = -1
			})
		}
	}
	// peers
	for _, x := range active {
		x := x
		total := e.Pick(0, 1, 50, 3000)
		ending := e.Intn(4) // 0 nothing, 1 close, 2 shutdown(write), 3 close with unread data (reset)
		x.wantOut = e.Chance(1, 3)
		simrt.GoNamed(fmt.Sprintf("peer%d", x.id), false, func() {
			data := streamBytes(x.stream, 0, total)
			off := 0
			for off < len(data) {
				n := 1 + e.Intn(1+e.Pick(3, 60, 2000))
				if n > len(data)-off {
					n = len(data) - off
				}
				w, err := PeerWriteAll(x.peer, data[off:off+n], func(r int) int { return r })
				off += w
				x.wrote = off
				if err != nil {
					return
				}
				if e.Chance(1, 4) {
					simrt.Sleep(int64(e.Pick(1, 3)) * 300000)
				}
			}
			switch ending {
			case 1, 3:
				x.peerEnd = "close"
				vsys.HClose(x.peer)
				x.peer = -1
			case 2:
				x.peerEnd = "shutdown"
				vsys.HShutdown(x.peer, 1)
			}
		})
		if x.wantOut {
			// ask the poller to send something for us
			x.out = streamBytes(x.stream+1000, 0, e.Pick(1, 100, 5000))
			poll.Control(x.op, PollR2RW)
		}
	}
	// when the batch is huge, make every descriptor readable at once
	if nfds > 8 {
		for _, x := range fds[8:] {
			vsys.HWrite(x.peer, []byte{streamByte(x.stream, 0)})
			x.wrote = 1
		}
	}
	// a user detach of one descriptor, a Trigger
	if e.Chance(1, 3) {
		x := active[e.Intn(len(active))]
		simrt.GoNamed("detacher", false, func() {
			simrt.Sleep(int64(e.Pick(0, 1, 4)) * 300000)
			x.userDet = true
			// the protocol connection uses: deregister, then hand the slot back (which waits for a
			// dispatch in progress); only then is the descriptor really detached
			poll.Control(x.op, PollDetach)
			x.op.Free()
			x.userDetAt = simrt.Step()
		})
	}
	if e.Chance(1, 2) {
		simrt.GoNamed("trigger", false, func() {
			simrt.Sleep(int64(e.Pick(0, 1, 4)) * 300000)
			poll.Trigger()
		})
	}
	simrt.WaitQuiescentFor(3e9)
	e.nonTriv = true
	if vsys.Readable(poll.wop.FD) {
		e.Fail("trigger-wakes", "trigger-not-consumed", "the poller's wake-up descriptor is readable at quiescence: Trigger did not wake the loop")
	}
	// epoll_ctl DEL steps per descriptor
	for _, ev := range vsys.Events {
		if ev.Name == "epoll_ctl" && ev.N == syscall.EPOLL_CTL_DEL && ev.Err == 0 {
			for _, x := range fds {
				if x.fd == ev.FD && x.detachSeq < 0 {
					x.detachSeq = ev.Step
				}
			}
		}
	}
	for _, x := range fds {
		if x.userDet {
			if x.afterHup > 0 {
				e.Fail("no-callback-after-detach", "callback-after-detach", "descriptor %d: %d input callbacks fired after Detach had returned", x.id, x.afterHup)
			}
			continue
		}
		if x.acked != x.wrote {
			for _, ev := range vsys.Events {
				if ev.FD == x.fd || ev.FD == x.peer {
					simrt.Logf("fd-event step=%d task=%d %s fd=%d n=%d err=%d arg=%d", ev.Step, ev.Task, ev.Name, ev.FD, ev.N, ev.Err, ev.Arg)
				}
			}
			e.Fail("input-complete", "input-missing", "descriptor %d: the peer wrote %d bytes, %d were delivered to the input callbacks, the poller is idle", x.id, x.wrote, x.acked)
		}
		if x.hups > 1 {
			e.Fail("hup-once", "hup-twice", "descriptor %d: hang-up reported %d times", x.id, x.hups)
		}
		if x.peerEnd != "" && x.hups != 1 {
			e.Fail("hup-once", "hup-missing", "descriptor %d: the peer did %s, hang-up was reported %d times", x.id, x.peerEnd, x.hups)
		}
		if x.peerEnd == "" && x.hups != 0 {
			e.Fail("hup-once", "hup-spurious", "descriptor %d: hang-up reported although the peer is still there", x.id)
		}
		if x.hups == 1 && (x.detachSeq < 0 || x.detachSeq > x.hupSeq) {
			e.Fail("hup-after-deregistration", "hup-before-detach", "descriptor %d: hang-up reported at step %d, deregistration at step %d", x.id, x.hupSeq, x.detachSeq)
		}
		if x.wantOut && x.peerEnd == "" && len(x.out) != 0 {
			e.Fail("output-complete", "output-stuck", "descriptor %d: %d bytes are still waiting to be sent although the peer's socket has room and the poller is idle", x.id, len(x.out))
		}
		if x.wantOut && x.peerEnd == "" {
			if got := int(vsys.FDs[x.fd].Written); got != x.outAcked {
				e.Fail("output-ack-count", "output-ack-mismatch", "descriptor %d: the kernel accepted %d bytes, the output callbacks were told %d", x.id, got, x.outAcked)
			}
		}
	}
	for i, w := range wfds {
		for _, ev := range vsys.Events {
			if ev.Name == "epoll_ctl" && ev.N == syscall.EPOLL_CTL_DEL && ev.Err == 0 && ev.FD == w.fd && w.detachSeq < 0 {
				w.detachSeq = ev.Step
			}
		}
		switch {
		case w.closed && w.hups != 1:
			e.Fail("hup-once", "hup-missing/writable-only", "descriptor w%d is registered for writability only (edge-triggered, as a connecting socket); its peer closed and hang-up was reported %d times, the poller is idle (writability reported %d times)", i, w.hups, w.writes)
		case !w.closed && w.hups != 0:
			e.Fail("hup-once", "hup-spurious/writable-only", "descriptor w%d: hang-up reported although the peer is still there", i)
		case w.hups == 1 && (w.detachSeq < 0 || w.detachSeq > w.hupSeq):
			e.Fail("hup-after-deregistration", "hup-before-detach/writable-only", "descriptor w%d: hang-up reported at step %d, deregistration at step %d", i, w.hupSeq, w.detachSeq)
		case !w.closed && w.writes == 0:
			e.Fail("writable-reported", "writable-missing", "descriptor w%d is writable and registered for writability, which was never reported", i)
		}
	}
	// Close stops the loop and releases the poller's own descriptors
	epfd, wfd := poll.fd, poll.wop.FD
	poll.Close()
	simrt.WaitQuiescentFor(2e9)
	if !loopDone {
		e.Fail("close-stops-loop", "loop-alive", "the poller loop has not exited after Close")
	}
	if vsys.FDs[epfd].Open || vsys.FDs[wfd].Open {
		e.Fail("close-releases", "poller-fd-open", "after Close the poller's epoll descriptor (open=%v) or wake-up descriptor (open=%v) is still open", vsys.FDs[epfd].Open, vsys.FDs[wfd].Open)
	}
	for _, x := range fds {
		if x.peer >= 0 {
			vsys.HClose(x.peer)
		}
		vsys.Disown(x.fd)
		vsys.HClose(x.fd)
	}
	for _, w := range wfds {
		if w.peer >= 0 {
			vsys.HClose(w.peer)
		}
		vsys.Disown(w.fd)
		vsys.HClose(w.fd)
	}
	e.Summary = fmt.Sprintf("fds=%d wfds=%d faults=%v errqueueEAGAIN=%v", nfds, len(wfds), faults, vsys.K.ErrQueueEAGAIN)
	for _, x := range active {
		e.Summary += fmt.Sprintf(" d%d{wrote=%d acked=%d hups=%d end=%s out=%v det=%v}", x.id, x.wrote, x.acked, x.hups, x.peerEnd, x.wantOut, x.userDet)
	}
	e.State = fmt.Sprint(nfds, len(active))
	e.Teardown()
	CheckLedger(e)
}

// ---------------------------------------------------------------------------------------------
// c10_batch: the narrow window of slot reuse - a connection is closed by its user while events for
// it are (about to be) fetched in one batch together with other events, and a new connection is
// opened at the same moment. Few tasks and few steps, so that the schedule search can hit every
// order of {close, slot recycled, slot handed out, stale event dispatched}.

func init() {
	registerScenario(&Scenario{Name: "c10_batch", Property: "C10", MaxSteps: 6000, Run: runC10Batch,
		Desc: "one poller; connections A and X get input at the same instant (A's peer may close as well), A is closed by its user and a new connection B is opened concurrently; X and B are bystanders that must keep receiving and stay active"})
}

func runC10Batch(e *Env) {
	faults := e.Chance(1, 4)
	e.Setup(1, faults)
	vsys.K.ReuseAdversary = false
	a, peerA := e.NewPair(0)
	aop, afd := a.operator, a.fd
	type by struct {
		name   string
		c      *connection
		peer   int
		wrote  int
		cb     int
		stream int
	}
	// 1-3 bystanders whose input is ahead of A's in the batch, and the connection opened meanwhile
	var bys []*by
	for i := 0; i < 1+e.Intn(3); i++ {
		c, p := e.NewPair(0)
		y := &by{name: fmt.Sprintf("X%d", i), c: c, peer: p, stream: 201 + i}
		c.AddCloseCallback(func(Connection) error { y.cb++; return nil })
		bys = append(bys, y)
	}
	nb := &by{name: "B", peer: -1, stream: 220}
	aClosedCB := 0
	a.AddCloseCallback(func(Connection) error { aClosedCB++; return nil })
	simrt.WaitQuiescentFor(1e9)
	peerCloses := e.Chance(2, 3)
	// steering (any timing of Close and of a new connection is legitimate; these two make the
	// interesting ones likely): close A once an event for it has been fetched by the poller, open B
	// once A's slot is back on the poller's free chain
	closeAfterFetch := e.Chance(2, 3)
	openAfterRecycle := e.Chance(2, 3)
	onFreeChain := func() bool {
		dp := pollmanager.polls[0].(*defaultPoll)
		n := 0
		for op := dp.opcache.first; op != nil && n < 100000; op, n = op.next, n+1 {
			if op == aop {
				return true
			}
		}
		return false
	}
	closed, giveUp := false, false
	f0 := vsys.Fetched(afd)
	simrt.GoNamed("closer", false, func() {
		if closeAfterFetch {
			simrt.WaitUntil("an event of A fetched", func() bool { return vsys.Fetched(afd) > f0 || giveUp })
		} else if e.Bool() {
			simrt.Sleep(int64(e.Pick(0, 1, 2)) * 100000)
		}
		a.Close()
		closed = true
	})
	simrt.GoNamed("opener", false, func() {
		if openAfterRecycle {
			simrt.WaitUntil("A's slot recycled", func() bool { return closed && (onFreeChain() || giveUp) })
		} else if e.Bool() {
			simrt.Sleep(int64(e.Pick(0, 1, 2)) * 100000)
		}
		nb.c, nb.peer = e.NewPair(0)
		nb.c.AddCloseCallback(func(Connection) error { nb.cb++; return nil })
		n, _ := PeerWriteAll(nb.peer, streamBytes(nb.stream, 0, e.Pick(1, 30)), func(r int) int { return r })
		nb.wrote += n
	})
	if closeAfterFetch || openAfterRecycle {
		// let the steered tasks reach their waits before anything happens
		simrt.WaitQuiescentFor(1)
	}
	simrt.GoNamed("peers", false, func() {
		if e.Bool() {
			simrt.Sleep(int64(e.Pick(0, 1, 2)) * 100000)
		}
		for _, y := range bys {
			n, _ := PeerWriteAll(y.peer, streamBytes(y.stream, 0, e.Pick(1, 30)), func(r int) int { return r })
			y.wrote += n
		}
		PeerWriteAll(peerA, streamBytes(200, 0, e.Pick(1, 30)), func(r int) int { return r })
		if peerCloses {
			vsys.HClose(peerA)
			peerA = -1
		}
		if e.Bool() {
			y := bys[0]
			n, _ := PeerWriteAll(y.peer, streamBytes(y.stream, y.wrote, e.Pick(1, 30)), func(r int) int { return r })
			y.wrote += n
		}
	})
	simrt.WaitQuiescentFor(2e9)
	if nb.c == nil || !closed {
		// the poller recycles slots after a batch only: with nothing further to dispatch the slot
		// stays where it is, and the opener goes ahead without it
		giveUp = true
		simrt.WaitQuiescentFor(2e9)
	}
	e.nonTriv = true
	slots := []*c10Conn{{id: 0, c: a, fd: afd, closed: true}}
	for i, y := range append(bys, nb) {
		if y.c == nil {
			e.Fail("bystander-untouched", "opener-stuck", "the new connection was never opened; tasks=%v", simrt.TaskStates())
			continue
		}
		slots = append(slots, &c10Conn{id: i + 1, c: y.c, fd: y.c.fd})
		if !y.c.IsActive() || y.cb != 0 {
			e.Fail("bystander-untouched", "bystander-closed", "connection %s was never closed by anybody and its peer is alive, but it is inactive (active=%v, close callbacks ran %d times): it received an event meant for the closed connection A", y.name, y.c.IsActive(), y.cb)
			continue
		}
		if l := y.c.inputBuffer.Len(); l != y.wrote {
			e.Fail("bystander-receives", "bystander-starved", "connection %s is open, its peer wrote %d bytes, %d are buffered", y.name, y.wrote, l)
			continue
		}
		if p, err := y.c.Peek(y.wrote); err != nil || checkStream(y.stream, 0, p) >= 0 {
			e.Fail("no-foreign-data", "foreign-data", "connection %s holds bytes its own peer never sent (err=%v)", y.name, err)
		}
	}
	if aClosedCB != 1 {
		e.Fail("callbacks-own", fmt.Sprintf("closecb-%d-times", aClosedCB), "the close callback of the closed connection ran %d times", aClosedCB)
	}
	checkSlots(e, slots)
	e.Summary = fmt.Sprintf("bystanders=%d peerCloses=%v closeAfterFetch=%v openAfterRecycle=%v faults=%v", len(bys), peerCloses, closeAfterFetch, openAfterRecycle, faults)
	e.State = fmt.Sprint(len(bys), peerCloses, closeAfterFetch, openAfterRecycle)
	for _, y := range append(bys, nb) {
		if y.c != nil {
			y.c.Close()
		}
		if y.peer >= 0 {
			vsys.HClose(y.peer)
		}
	}
	if peerA >= 0 {
		vsys.HClose(peerA)
	}
	simrt.WaitQuiescentFor(1e9)
	e.Teardown()
	CheckLedger(e)
}

func fdOf(c *connection) int {
	if c == nil {
		return -1
	}
	return c.fd
}

// ---------------------------------------------------------------------------------------------
// c11_trigger: "Trigger wakes a blocked loop", under any number of concurrent Trigger callers.

func init() {
	registerScenario(&Scenario{Name: "c11_trigger", Property: "C11", MaxSteps: 8000, Run: runC11Trigger,
		Desc: "the real defaultPoll loop; 1-4 tasks calling Trigger 1-3 times each at seeded instants (also while the loop is handling an earlier wake-up or socket input); afterwards, with the loop blocked, one more Trigger must be written to the wake-up descriptor and consumed by the loop"})
}

func runC11Trigger(e *Env) {
	e.Setup(1, e.Chance(1, 4))
	poll, err := openDefaultPoll()
	if err != nil {
		panic("harness: openDefaultPoll: " + err.Error())
	}
	loopDone := false
	simrt.GoNamed("loop", false, func() {
		poll.Wait()
		loopDone = true
	})
	// optionally a socket whose input wakes the loop as well
	peer, sock := -1, -1
	got := 0
	if e.Bool() {
		a, b := vsys.HSocketpair()
		peer, sock = b, a
		op := poll.Alloc()
		op.FD = a
		buf := make([]byte, 64)
		op.Inputs = func(vs [][]byte) [][]byte { vs[0] = buf; return vs[:1] }
		op.InputAck = func(n int) error { got += n; return nil }
		op.OnHup = func(p Poll) error { return nil }
		if err := poll.Control(op, PollReadable); err != nil {
			panic("harness: register: " + err.Error())
		}
	}
	ntask := 1 + e.Intn(4)
	calls := 0
	for i := 0; i < ntask; i++ {
		n := 1 + e.Intn(3)
		simrt.GoNamed("trigger", false, func() {
			for j := 0; j < n; j++ {
				if e.Chance(1, 3) {
					simrt.Sleep(int64(e.Pick(0, 1, 2)) * 100000)
				}
				poll.Trigger()
				calls++
			}
		})
	}
	if peer >= 0 {
		simrt.GoNamed("peer", false, func() {
			for j := 0; j < 1+e.Intn(3); j++ {
				vsys.HWrite(peer, []byte("x"))
				if e.Bool() {
					simrt.Sleep(int64(e.Pick(0, 1)) * 100000)
				}
			}
		})
	}
	simrt.WaitQuiescentFor(1e9)
	e.nonTriv = true
	wfd := poll.wop.FD
	if vsys.Readable(wfd) {
		e.Fail("trigger-wakes", "trigger-not-consumed", "the poller's wake-up descriptor is readable at quiescence: a Trigger did not wake the loop")
	}
	// the loop is blocked now: every further Trigger has to reach it
	for k := 0; k < 2; k++ {
		w0, r0 := vsys.FDs[wfd].Written, vsys.FDs[wfd].Read
		if err := poll.Trigger(); err != nil {
			e.Fail("trigger-wakes", "trigger-error", "Trigger on an idle poller returned %v", err)
		}
		simrt.WaitQuiescentFor(1e9)
		if vsys.FDs[wfd].Written == w0 {
			e.Fail("trigger-wakes", "trigger-swallowed", "after %d concurrent Trigger calls the loop is blocked in epoll_wait and a further Trigger (probe %d) wrote nothing to the wake-up descriptor: the loop is not woken (and never will be)", calls, k)
			break
		}
		if vsys.FDs[wfd].Read == r0 || vsys.Readable(wfd) {
			e.Fail("trigger-wakes", "trigger-not-consumed", "a Trigger on the blocked loop was written but the loop did not wake up to consume it")
			break
		}
	}
	e.Summary = fmt.Sprintf("tasks=%d calls=%d socket=%v", ntask, calls, peer >= 0)
	e.State = fmt.Sprint(ntask, calls, peer >= 0)
	poll.Close()
	simrt.WaitQuiescentFor(1e9)
	if !loopDone {
		e.Fail("close-ends-loop", "loop-not-ended", "Close of the poller did not end its loop")
	}
	if peer >= 0 {
		vsys.HClose(peer)
		vsys.HClose(sock)
	}
	e.Teardown()
	CheckLedger(e)
}
