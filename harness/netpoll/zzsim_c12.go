//go:build go1.22

package netpoll

// C12 - a closed connection answers with errors, not panics or hangs.
// The product {method} x {close mode} x {input buffered} x {output pending} x {callbacks} x {once,
// twice} x {slot reused by a new connection} is enumerated by the workload tape; each case is
// reached inside the simulator (the close modes need the poller) and the method is then called
// from a fresh task.

import (
	"context"
	"errors"
	"fmt"
	"time"

	"verif.local/simrt"
	"verif.local/simrt/vsys"
)

func init() {
	registerScenario(&Scenario{Name: "c12_closed", Property: "C12", MaxSteps: 8000, Run: runC12,
		Desc: "every Connection/Reader/Writer method called once or twice after the connection was closed by the user, by the peer, by the peer then the user, or detached; with input buffered or not, output pending or not, callbacks or not, and optionally after a new connection has reused the poller slot"})
}

var c12Methods = []string{"Next", "Peek", "Skip", "Until", "ReadString", "ReadBinary", "ReadByte", "Slice", "Release", "Len", "Read",
	"Malloc", "WriteString", "WriteBinary", "WriteByte", "WriteDirect", "MallocAck", "Append", "Flush", "MallocLen", "Write",
	"Close", "IsActive", "SetReadTimeout", "SetWriteTimeout", "SetIdleTimeout", "SetOnRequest", "AddCloseCallback", "LocalAddr", "RemoteAddr",
	"SetDeadline", "SetReadDeadline", "SetWriteDeadline", "Reader.Len", "NextSmall", "ReadSmall"}

var c12Modes = []string{"user", "peer", "peer+user", "detach"}

var c12Maybe int

// C12Cases is the size of the enumerated product.
var C12Cases = len(c12Methods) * len(c12Modes) * 2 * 2 * 2 * 2 * 2 * 2

func runC12(e *Env) {
	e.Setup(1, false)
	mi := e.Intn(len(c12Methods))
	mode := c12Modes[e.Intn(len(c12Modes))]
	inputBuffered := e.Bool()
	outputPending := e.Bool()
	callbacks := e.Bool()
	twice := e.Bool()
	reuse := e.Bool()
	timed := e.Bool() // a read timeout and a write timeout are configured when the method is called
	method := c12Methods[mi]
	const stream = 12
	nbuf := 0
	if inputBuffered {
		nbuf = 5
	}
	e.Summary = fmt.Sprintf("method=%s mode=%s input=%d outputPending=%v callbacks=%v twice=%v slotReused=%v timeouts=%v", method, mode, nbuf, outputPending, callbacks, twice, reuse, timed)
	e.State = e.Summary

	var conn *connection
	var peer int
	if callbacks {
		// accepted connection with OnConnect (no request handler: buffered input stays buffered)
		ln, path := e.NewRawListener("c12")
		evl, _ := NewEventLoop(nil, WithOnPrepare(func(c Connection) context.Context {
			conn = c.(*connection)
			c.AddCloseCallback(func(Connection) error { return nil })
			simrt.Publish()
			return nil
		}), WithOnConnect(func(ctx context.Context, c Connection) context.Context { return ctx }))
		e.StartServer(evl, ln)
		p, err := vsys.HConnectUnix(path)
		if err != nil {
			panic("harness: connect: " + err.Error())
		}
		peer = p
		simrt.WaitUntil("accepted", func() bool { return conn != nil && conn.state != connStateNone })
	} else {
		conn, peer = e.NewPair(0)
	}
	if nbuf > 0 {
		PeerWriteAll(peer, streamBytes(stream, 0, nbuf), func(r int) int { return r })
	}
	simrt.WaitQuiescentFor(1e9)
	if outputPending {
		if buf, err := conn.Malloc(7); err == nil {
			copy(buf, "pending")
		}
	}
	fd := conn.fd
	// ---- close
	switch mode {
	case "user":
		conn.Close()
	case "peer":
		vsys.HClose(peer)
		peer = -1
	case "peer+user":
		vsys.HClose(peer)
		peer = -1
		simrt.WaitQuiescentFor(1e9)
		conn.Close()
	case "detach":
		conn.Detach()
	}
	simrt.WaitQuiescentFor(1e9)
	var other *connection
	otherPeer := -1
	if reuse {
		other, otherPeer = e.NewPair(0)
		PeerWriteAll(otherPeer, []byte("hello"), func(r int) int { return r })
		simrt.WaitQuiescentFor(1e9)
	}
	// buffered input stays readable only for a peer-closed connection that nobody closed and that
	// has no callbacks (netpoll then waits for the user's Close)
	readable := 0
	if mode == "peer" && !callbacks {
		readable = nbuf
	}
	// after a local close netpoll keeps an unclean input buffer of a callback-less connection: what
	// is still buffered may or may not be readable, the property only speaks about reads needing more
	c12Maybe = 0
	if mode != "peer" && !callbacks {
		c12Maybe = nbuf
	}
	wantEOF := mode == "peer"

	calls := 1
	if twice {
		calls = 2
	}
	done := 0
	t := simrt.GoNamed("caller", false, func() {
		if timed {
			conn.SetReadTimeout(50 * time.Millisecond)
			conn.SetWriteTimeout(50 * time.Millisecond)
		}
		for k := 0; k < calls; k++ {
			c12Call(e, conn, method, stream, &readable, wantEOF, k)
			done++
		}
	})
	simrt.WaitQuiescentFor(2e9)
	e.nonTriv = true
	if done != calls && !t.Exited() {
		e.Fail("no-hang", "hang/"+method+"/"+mode, "%s on a connection closed by %s has not returned (call %d of %d); tasks=%v", method, mode, done+1, calls, simrt.TaskStates())
	}
	// the bystander must not have been disturbed
	if other != nil {
		if other.inputBuffer.Len() != 5 || !other.IsActive() {
			e.FailP("C10", "bystander-untouched", "bystander-disturbed/"+method, "a new connection that reused the poller slot has %d of its 5 bytes buffered and active=%v after %s was called on the closed connection", other.inputBuffer.Len(), other.IsActive(), method)
		}
		other.Close()
		vsys.HClose(otherPeer)
	}
	if mode == "peer" {
		conn.Close()
	}
	if mode == "detach" && fd < vsys.MaxFD && vsys.FDs[fd].Open && vsys.FDs[fd].Owner == vsys.OwnNetpoll {
		vsys.Disown(fd)
		vsys.HClose(fd)
	}
	if peer >= 0 {
		vsys.HClose(peer)
	}
	simrt.WaitQuiescentFor(1e9)
	e.Teardown()
	CheckLedger(e)
}

func c12Call(e *Env, c *connection, method string, stream int, readable *int, wantEOF bool, k int) {
	closedErr := func(err error, what string) {
		if err == nil {
			e.Fail("closed-error", "nil-error/"+method, "%s on a closed connection (%s) returned a nil error", method, what)
			return
		}
		if !errors.Is(err, ErrConnClosed) {
			e.Fail("closed-error", "wrong-error/"+method, "%s on a closed connection returned %v, which does not match ErrConnClosed", method, err)
		}
		if wantEOF && what == "read" && !errors.Is(err, ErrEOF) {
			e.Fail("closed-error", "not-eof/"+method, "%s after the peer closed returned %v, which does not match ErrEOF", method, err)
		}
	}
	// a read of n bytes: succeeds while buffered input remains, fails afterwards
	read := func(n int, f func() ([]byte, error), consumes bool) {
		p, err := f()
		if n > *readable && n <= c12Maybe {
			// optional: either the still buffered bytes, or the closed error
			if err == nil {
				if p != nil && (len(p) != n || checkStream(stream, 5-c12Maybe, p) >= 0) {
					e.Fail("buffered-readable", "buffered-content/"+method, "%s(%d) after a local close returned wrong bytes %q", method, n, p)
				}
				if consumes {
					c12Maybe -= n
				}
				return
			}
			closedErr(err, "read")
			return
		}
		if n <= *readable {
			if err != nil {
				e.Fail("buffered-readable", "buffered-unreadable/"+method, "%s(%d) failed with %v although %d bytes buffered before the peer closed are still unread", method, n, err, *readable)
				return
			}
			if p != nil && (len(p) != n || checkStream(stream, 5-*readable, p) >= 0) {
				e.Fail("buffered-readable", "buffered-content/"+method, "%s(%d) returned wrong bytes %q", method, n, p)
			}
			if consumes {
				*readable -= n
			}
			return
		}
		closedErr(err, "read")
	}
	big := 64
	switch method {
	case "Next":
		read(big, func() ([]byte, error) { return c.Next(big) }, true)
	case "NextSmall":
		read(2, func() ([]byte, error) { return c.Next(2) }, true)
	case "Peek":
		read(big, func() ([]byte, error) { return c.Peek(big) }, false)
	case "Skip":
		read(big, func() ([]byte, error) { return nil, c.Skip(big) }, true)
	case "Until":
		_, err := c.Until(0)
		if err == nil {
			e.Fail("closed-error", "nil-error/Until", "Until on a closed connection returned nil without a delimiter")
		}
		*readable = 0
	case "ReadString":
		read(big, func() ([]byte, error) { s, err := c.ReadString(big); return []byte(s), err }, true)
	case "ReadBinary":
		read(big, func() ([]byte, error) { return c.ReadBinary(big) }, true)
	case "ReadByte":
		read(1, func() ([]byte, error) {
			b, err := c.ReadByte()
			if err != nil {
				return nil, err
			}
			return []byte{b}, nil
		}, true)
	case "Slice":
		read(big, func() ([]byte, error) { _, err := c.Slice(big); return nil, err }, true)
	case "Release":
		c.Release()
	case "Len", "Reader.Len":
		if l := c.Reader().Len(); l != *readable && l != 0 && l != c12Maybe {
			e.Fail("len", "len/"+method, "Len() = %d on a closed connection with %d readable bytes", l, *readable)
		}
	case "Read":
		read(1, func() ([]byte, error) {
			p := make([]byte, 1)
			n, err := c.Read(p)
			if err != nil {
				return nil, err
			}
			return p[:n], nil
		}, true)
	case "ReadSmall":
		read(3, func() ([]byte, error) { return c.ReadBinary(3) }, true)
	case "Malloc":
		_, err := c.Malloc(8)
		closedErr(err, "write")
	case "WriteString":
		_, err := c.WriteString("abc")
		closedErr(err, "write")
	case "WriteBinary":
		_, err := c.WriteBinary([]byte("abc"))
		closedErr(err, "write")
	case "WriteByte":
		closedErr(c.WriteByte('x'), "write")
	case "WriteDirect":
		closedErr(c.WriteDirect([]byte("abc"), 0), "write")
	case "MallocAck":
		closedErr(c.MallocAck(0), "write")
	case "Append":
		closedErr(c.Append(NewLinkBuffer()), "write")
	case "Flush":
		closedErr(c.Flush(), "write")
	case "MallocLen":
		c.MallocLen()
	case "Write":
		_, err := c.Write([]byte("abc"))
		closedErr(err, "write")
	case "Close":
		if err := c.Close(); err != nil {
			e.Fail("close-idempotent", "close-error", "Close on a closed connection returned %v", err)
		}
	case "IsActive":
		if c.IsActive() {
			e.Fail("isactive", "active-after-close", "IsActive() is true on a closed connection")
		}
	case "SetReadTimeout":
		c.SetReadTimeout(time.Millisecond)
	case "SetWriteTimeout":
		c.SetWriteTimeout(time.Millisecond)
	case "SetIdleTimeout":
		c.SetIdleTimeout(time.Second)
	case "SetOnRequest":
		c.SetOnRequest(func(ctx context.Context, conn Connection) error {
			conn.Reader().Skip(conn.Reader().Len()) // the handler contract: consume or close
			return nil
		})
		*readable = 0
	case "AddCloseCallback":
		c.AddCloseCallback(func(Connection) error { return nil })
	case "LocalAddr":
		c.LocalAddr()
	case "RemoteAddr":
		c.RemoteAddr()
	case "SetDeadline":
		c.SetDeadline(time.Unix(0, simrt.UnixNano()+1e6))
	case "SetReadDeadline":
		c.SetReadDeadline(time.Unix(0, simrt.UnixNano()+1e6))
	case "SetWriteDeadline":
		c.SetWriteDeadline(time.Unix(0, simrt.UnixNano()+1e6))
	}
}
