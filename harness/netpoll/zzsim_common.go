//go:build go1.22

package netpoll

// Simulation harness, common part. This file is copied into the rewritten scratch copy of
// netpoll (it is NOT rewritten itself) and gives the scenarios in-package access.

import (
	"context"
	"fmt"
	"log"
	"net"
	"sort"
	"strings"
	"syscall"

	"github.com/cloudwego/netpoll/internal/runner"
	"verif.local/simrt"
	"verif.local/simrt/valloc/mcache"
	"verif.local/simrt/vsync"
	"verif.local/simrt/vsys"
	"verif.local/simrt/vtime"
)

// Scenario is one seeded workload with its oracles.
type Scenario struct {
	Name     string
	Property string
	Desc     string
	MaxSteps int
	Run      func(e *Env)
	// Plain scenarios (sequential buffer properties) run without scheduler tasks of their own.
}

var SimScenarios = map[string]*Scenario{}

func registerScenario(s *Scenario) { SimScenarios[s.Name] = s }

// RegisterSimScenario lets the harness package add scenarios that need other packages (mux).
func RegisterSimScenario(s *Scenario) { registerScenario(s) }

// SetNonTrivial / SetSummary are the exported setters for scenarios outside this package.
func (e *Env) SetNonTrivial(b bool)          { e.nonTriv = b }
func (e *Env) SetSummary(s, state string)    { e.Summary, e.State = s, state }
func (e *Env) NewFDPair() (Connection, int)  { c, p := e.NewPair(0); return c, p }
func (e *Env) CheckDescriptors()             { CheckLedger(e) }

// SimScenarioNames lists the registered scenarios.
func SimScenarioNames() []string {
	var ns []string
	for n := range SimScenarios {
		ns = append(ns, n)
	}
	sort.Strings(ns)
	return ns
}

// Ev is one entry of the recorded history; Seq is the simulator's global step number.
type Ev struct {
	Seq  int
	Kind string
	Conn int
	N    int
	S    string
}

// Env is the per-run environment of a scenario.
type Env struct {
	Sc       *Scenario
	Hist     []Ev
	Pollers  int
	Faulty   bool
	nonTriv  bool
	tmpPaths []string
	conns    []*connection
	loops    []EventLoop
	Summary  string // abstract description of the run (sample for the evidence)
	State    string // abstract state signature (distinct-state measure)
	// LocalCloseAt >= 0: a user Close of the connection under test was invoked at that step while its
	// reader task may be inside a Reader call. Close releases the input buffer without synchronising
	// with a reader that already has its bytes (the documented unsynchronised buffer, DESIGN.md 6.5):
	// a panic of that reader inside the buffer code after that step is not a verdict of these properties.
	LocalCloseAt int
	ReaderTask   string
}

func (e *Env) Rec(kind string, conn, n int, s string) {
	e.Hist = append(e.Hist, Ev{Seq: simrt.Step(), Kind: kind, Conn: conn, N: n, S: s})
	simrt.Publish()
}

func (e *Env) Fail(oracle, fingerprint, format string, a ...interface{}) {
	simrt.Fail(e.Sc.Property, oracle, e.Sc.Property+"/"+fingerprint, format, a...)
}

// FailP reports a violation of another property's oracle (cross-property observation).
func (e *Env) FailP(prop, oracle, fingerprint, format string, a ...interface{}) {
	simrt.Fail(prop, oracle, prop+"/"+fingerprint, format, a...)
}

// Intn / Bool / Pick draw workload choices from the tape.
func (e *Env) Intn(n int) int { return simrt.Intn(n) }
func (e *Env) Bool() bool     { return simrt.Intn(2) == 1 }
func (e *Env) Chance(num, den int) bool {
	return simrt.Intn(den) < num
}
func (e *Env) Pick(vals ...int) int { return vals[simrt.Intn(len(vals))] }

type simLogWriter struct{}

func (simLogWriter) Write(p []byte) (int, error) {
	simrt.Logf("netpoll-log: %s", strings.TrimSpace(string(p)))
	return len(p), nil
}

// simRunTask is the Config.Runner seam: handler tasks become simulator tasks. Like the default
// goroutine pool it recovers a panic of the task; the panic is recorded in the history.
var simTaskPanics []string

func simRunTask(ctx context.Context, f func()) {
	simrt.GoNamed("task", false, func() {
		defer func() {
			if r := recover(); r != nil {
				simTaskPanics = append(simTaskPanics, fmt.Sprint(r))
				simrt.Logf("handler task panic recovered by pool: %v", r)
			}
		}()
		f()
	})
}

// FaultProfile describes which kernel faults are drawn in this run.
type FaultProfile struct {
	ShortWrite, SendEAGAIN, ShortRead, ReadEINTR, EpollEINTR, EpollClip int
}

// Setup prepares the global state of netpoll for a fresh run. Must be called first by every
// scenario (from the main task).
func (e *Env) Setup(pollers int, faults bool) {
	e.Pollers = pollers
	vsync.ResetPools()
	vsys.Reset()
	simTaskPanics = nil
	pollmanager = newManager(pollers)
	runner.RunTask = simRunTask
	logger = log.New(simLogWriter{}, "", 0)
	defaultLinkBufferSize = pagesize
	LinkBufferCap = block4k
	vtime.AsyncChan = true
	// (race build: the real sync.Pool orders Put and Get of one object; the shim's hand-off is
	// hidden from the detector, so it must not hand objects from one task to another there)
	vsync.PoolReuse = !simrt.RaceBuild
	mcache.Reset(false)
	if faults {
		e.Faulty = true
		// each kind independently on/off (swarm), moderate rates so runs make progress
		rate := func() int {
			if simrt.Intn(2) == 0 {
				return 0
			}
			return []int{8, 24, 64, 128}[simrt.Intn(4)]
		}
		vsys.K.ShortWrite = rate()
		vsys.K.SendEAGAIN = rate() / 2
		vsys.K.ShortRead = rate()
		vsys.K.RecvEAGAIN = rate() / 4
		// no EINTR on reads: a non-blocking read never sleeps, so Linux never interrupts it
		vsys.K.EpollEINTR = rate() / 2
		vsys.K.EpollClip = rate()
	}
}

// Teardown closes the pollers, lets everything drain and returns the tasks still blocked.
func (e *Env) Teardown() {
	for _, l := range e.loops {
		l.Shutdown(context.Background())
	}
	e.loops = nil
	simrt.WaitQuiescent(true)
	for _, p := range pollmanager.polls {
		p.Close()
	}
	simrt.WaitQuiescent(true)
	for _, p := range e.tmpPaths {
		syscall.Unlink(p)
	}
}

// ---------------------------------------------------------------------------------------------
// byte streams: position-keyed, printable, never a value the allocator shims use as filler

func streamByte(stream, pos int) byte {
	x := uint32(stream)*2654435761 + uint32(pos)*40503 + 12345
	x ^= x >> 13
	x *= 0x5bd1e995
	x ^= x >> 15
	return byte(0x21 + x%90) // 0x21..0x7a
}

func streamBytes(stream, from, n int) []byte {
	b := make([]byte, n)
	for i := range b {
		b[i] = streamByte(stream, from+i)
	}
	return b
}

// checkStream verifies that got equals stream[from:from+len(got)]; it returns the first bad index or -1.
func checkStream(stream, from int, got []byte) int {
	for i, c := range got {
		if c != streamByte(stream, from+i) {
			return i
		}
	}
	return -1
}

// ---------------------------------------------------------------------------------------------
// connection construction

// NewPair returns a netpoll connection on one end of a socket pair and the raw peer descriptor.
func (e *Env) NewPair(sndbuf int) (*connection, int) {
	a, b := vsys.HSocketpair()
	if sndbuf > 0 {
		vsys.HSetBuf(a, sndbuf, sndbuf)
		vsys.HSetBuf(b, sndbuf, sndbuf)
	}
	vsys.Adopt(a)
	c, err := NewFDConnection(a)
	if err != nil {
		panic("harness: NewFDConnection: " + err.Error())
	}
	conn := c.(*connection)
	e.conns = append(e.conns, conn)
	return conn, b
}

// NewRawListener creates an AF_UNIX listener and wraps it in netpoll's own listener type.
func (e *Env) NewRawListener(tag string) (*listener, string) {
	path := fmt.Sprintf("/tmp/simnp-%d-%s.sock", syscall.Getpid(), tag)
	e.tmpPaths = append(e.tmpPaths, path)
	lfd, err := vsys.HListenUnix(path, 64)
	if err != nil {
		panic("harness: listen: " + err.Error())
	}
	vsys.Adopt(lfd)
	return &listener{fd: lfd, addr: &net.UnixAddr{Name: path, Net: "unix"}}, path
}

const (
	modeFD     = 0 // NewFDConnection over a socket pair
	modeAccept = 1 // accepted by a real server (event loop without request handler)
	modeDial   = 2 // dialled through DialConnection("unix", ...)
)

// NewConnMode builds a connection in one of three ways and returns the raw peer descriptor.
func (e *Env) NewConnMode(mode int) (*connection, int) {
	switch mode {
	case modeAccept:
		ln, path := e.NewRawListener(fmt.Sprintf("a%d", len(e.tmpPaths)))
		var got *connection
		evl, _ := NewEventLoop(nil, WithOnPrepare(func(c Connection) context.Context {
			got = c.(*connection)
			simrt.Publish()
			return nil
		}))
		e.StartServer(evl, ln)
		peer, err := vsys.HConnectUnix(path)
		if err != nil {
			panic("harness: connect: " + err.Error())
		}
		// wait until the server has finished accepting (tracked and OnConnect dispatched): closing
		// earlier than that is the business of the C13 scenarios, not of the users of this helper
		simrt.WaitUntil("server accepted", func() bool {
			svr := evl.(*eventLoop).svr
			return svr != nil && got != nil && got.operator != nil && got.operator.isInuse() && svr.connections.Len() > 0 && got.state != connStateNone
		})
		e.conns = append(e.conns, got)
		return got, peer
	case modeDial:
		path := fmt.Sprintf("/tmp/simnp-%d-d%d.sock", syscall.Getpid(), len(e.tmpPaths))
		e.tmpPaths = append(e.tmpPaths, path)
		lfd, err := vsys.HListenUnix(path, 16)
		if err != nil {
			panic("harness: listen: " + err.Error())
		}
		c, err := DialConnection("unix", path, 0)
		if err != nil {
			panic("harness: dial: " + err.Error())
		}
		peer, err := vsys.HAccept(lfd)
		if err != nil {
			panic("harness: accept: " + err.Error())
		}
		vsys.HClose(lfd)
		conn := &c.(*UnixConnection).connection
		e.conns = append(e.conns, conn)
		return conn, peer
	}
	return e.NewPair(0)
}

// StartServer runs evl.Serve(ln) as a task; Teardown shuts it down.
func (e *Env) StartServer(evl EventLoop, ln net.Listener) {
	e.loops = append(e.loops, evl)
	simrt.GoNamed("serve", false, func() {
		err := evl.Serve(ln)
		e.Rec("serve-return", 0, 0, fmt.Sprint(err))
	})
}

// peer helpers ---------------------------------------------------------------------------------

// PeerWriteAll writes data to the raw peer descriptor in the given chunking, waiting (in the
// scheduler) whenever the socket is full. It returns the number of bytes written before an error.
func PeerWriteAll(fd int, data []byte, chunk func(remaining int) int) (int, error) {
	off := 0
	for off < len(data) {
		n := chunk(len(data) - off)
		if n <= 0 || n > len(data)-off {
			n = len(data) - off
		}
		w, err := vsys.HWrite(fd, data[off:off+n])
		if err == syscall.EAGAIN {
			simrt.WaitUntil("peer socket writable", func() bool { return vsys.HWritable(fd) })
			continue
		}
		if err != nil {
			return off, err
		}
		off += w
	}
	return off, nil
}

// PeerReadSome reads what is available now (nil, nil when nothing is).
func PeerReadSome(fd int, max int) ([]byte, error) {
	buf := make([]byte, max)
	n, err := vsys.HRead(fd, buf)
	if err == syscall.EAGAIN {
		return nil, nil
	}
	if err != nil {
		return nil, err
	}
	if n == 0 {
		return nil, errPeerEOF
	}
	return buf[:n], nil
}

var errPeerEOF = fmt.Errorf("peer: EOF")

// PeerDrain reads until EOF/error or until want bytes arrived, waiting in the scheduler.
func PeerDrain(fd int, want int, chunk int) (got []byte, err error) {
	for want < 0 || len(got) < want {
		b, err := PeerReadSome(fd, chunk)
		if err != nil {
			return got, err
		}
		if b == nil {
			simrt.WaitUntil("peer socket readable", func() bool { return vsys.HReadable(fd) })
			continue
		}
		got = append(got, b...)
	}
	return got, nil
}

// errName renders an error by its netpoll identity.
func errName(err error) string {
	switch {
	case err == nil:
		return "nil"
	case isErr(err, ErrReadTimeout):
		return "ErrReadTimeout"
	case isErr(err, ErrWriteTimeout):
		return "ErrWriteTimeout"
	case isErr(err, ErrEOF):
		return "ErrEOF"
	case isErr(err, ErrConnClosed):
		return "ErrConnClosed"
	case isErr(err, ErrConcurrentAccess):
		return "ErrConcurrentAccess"
	}
	return "other(" + err.Error() + ")"
}

func isErr(err, target error) bool {
	type iser interface{ Is(error) bool }
	if e, ok := err.(iser); ok {
		return e.Is(target)
	}
	return err == target
}

func (op *FDOperator) isInuse() bool { return op.state != 0 }

// SimResult is what a run hands back to the worker.
type SimResult struct {
	*simrt.Result
	Summary   string
	State     string
	NonTrivial bool
	Hist      []Ev
}

// SimRunScenario executes one run of the named scenario. It must be called on the root
// goroutine of a synctest bubble.
func SimRunScenario(name string, cfg simrt.Config) *SimResult {
	sc := SimScenarios[name]
	if sc == nil {
		panic("unknown scenario " + name)
	}
	if cfg.MaxSteps == 0 {
		cfg.MaxSteps = sc.MaxSteps
	}
	e := &Env{Sc: sc, LocalCloseAt: -1}
	res := simrt.Run(cfg, func() {
		sc.Run(e)
	})
	if vsys.EventsDropped {
		// oracles read the system-call log: an incomplete log must never turn into a verdict
		res.Outcome = "harness-error"
		res.Blocked = append(res.Blocked, "harness: the system-call event log overflowed")
		res.Violations = nil
	}
	// a netpoll panic in any task is a finding of the scenario's own property
	for _, p := range res.Panics {
		if strings.Contains(p.Value, "harness:") && !strings.Contains(p.Value, "scripted") {
			// the harness could not set its scenario up (not a verdict)
			res.Outcome = "harness-error"
			res.Blocked = append(res.Blocked, p.Value)
		}
		if e.LocalCloseAt >= 0 && p.Step >= e.LocalCloseAt && e.ReaderTask != "" && strings.HasPrefix(p.Task, e.ReaderTask) &&
			strings.Contains(p.Stack, "nocopy_linkbuffer.go") {
			simrt.Probe("reader_panic_under_local_close")
			continue
		}
		if !strings.Contains(p.Value, "harness:") {
			site := panicSite(p.Stack)
			res.Violations = append(res.Violations, simrt.Violation{Property: sc.Property, Oracle: "no-panic",
				Class: sc.Property + "/panic/" + site, Fingerprint: sc.Property + "/panic/" + site, Message: "panic in task " + p.Task + ": " + p.Value + "\n" + p.Stack, Step: p.Step})
		}
	}
	// a capped run that ended in a tight loop of one task is a livelock, not an inconclusive run
	spin := ""
	switch {
	case res.Outcome == "capped" || res.Outcome == "livelock":
		spin = res.Spin
	case res.RestSpin != "" && !strings.Contains(res.RestSpin, ";"):
		spin = res.RestSpin // still spinning when everything else had come to rest
	}
	if spin != "" && len(res.Violations) == 0 {
		res.Spin = spin
		prop, what := "", ""
		switch {
		case strings.Contains(res.Spin, "(*server).Close"):
			// Shutdown polls the tracked connections for ever: one of them never goes away
			prop, what = "C13", "shutdown-never-returns"
		case strings.Contains(res.Spin, "(*FDOperator).do") && strings.Contains(res.Spin, "EpollWait") &&
			!strings.Contains(res.Spin, "readv") && !strings.Contains(res.Spin, "sendmsg") && !strings.Contains(res.Spin, "Accept"):
			// the poller keeps fetching an event it cannot dispatch: the descriptor is still registered
			// although its slot was released
			prop, what = "C05", "poller-spins-on-released-slot"
			if sc.Property == "C11" {
				// in the poller's own scenarios the same picture is a descriptor whose events are
				// fetched for ever and never dispatched (its slot is stuck, not released)
				prop, what = "C11", "poller-spins-on-undispatched-event"
			}
		case res.Outcome == "livelock" && strings.Contains(res.Spin, "(*locker).stop"):
			// a task spins on one of the connection's locks (Close waiting for a flush or a handler to let
			// go) while nothing else in the system can take a step, no timer is pending and nobody waits
			// for quiescence: whoever holds the lock is never going to be woken
			prop, what = sc.Property, "close-spins-for-ever-on-connection-lock"
		}
		if prop != "" {
			fns := res.Spin[strings.Index(res.Spin, "|")+1:]
			res.Violations = append(res.Violations, simrt.Violation{Property: prop, Oracle: "no-livelock", Class: prop + "/" + what, Fingerprint: prop + "/" + what,
				Message: "the run never came to rest: task " + res.Spin[:strings.Index(res.Spin, "|")] + " cycles through " + fns, Step: res.Steps})
		}
	}
	return &SimResult{Result: res, Summary: e.Summary, State: e.State, NonTrivial: e.nonTriv, Hist: e.Hist}
}

// panicSite names the innermost netpoll frame of a recorded stack.
func panicSite(stack string) string {
	for _, l := range strings.Split(stack, "\n") {
		if strings.Contains(l, "netpoll.") && !strings.Contains(l, "zzsim_") && !strings.Contains(l, "simRunTask") {
			f := strings.Fields(l)
			if len(f) > 0 {
				fn := f[0]
				if i := strings.LastIndex(fn, "/"); i >= 0 {
					fn = fn[i+1:]
				}
				return fn
			}
		}
	}
	return "unknown"
}
