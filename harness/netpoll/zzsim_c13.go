//go:build go1.22

package netpoll

// C13 - the server tracks every accepted connection and shuts down gracefully.
// Also hosts the listener life cycle of C15 (ConvertListener of a net.Listener).

import (
	"context"
	"fmt"
	"net"
	"sync/atomic"
	"syscall"
	"time"

	"verif.local/simrt"
	"verif.local/simrt/vsys"
	"verif.local/simrt/vtime"
)

func init() {
	registerScenario(&Scenario{Name: "c13_server", Property: "C13", MaxSteps: 40000, Run: runC13,
		Desc: "NewEventLoop+Serve on a real AF_UNIX listener with 1-2 pollers; 1-6 clients that connect, send, idle, close (including connect-and-close-at-once); handlers of generated duration; Shutdown with a generated deadline at any step; EMFILE stretches on accept"})
}

type c13Client struct {
	id        int
	delay     int64 // virtual ns before connecting
	send      int
	closeAt   int // 0 immediately after connect, 1 after sending, 2 after a pause, 3 never (until told)
	fd        int
	connected bool
	done      bool
}

type c13Conn struct {
	c        *connection
	fd       int
	prepared int
	closed   int // step of its close callback, -1 while open
	busy     int
}

func runC13(e *Env) {
	faults := e.Chance(1, 3)
	e.Setup(1+e.Intn(2), faults)
	vtime.AsyncChan = e.Chance(2, 3)
	useNetListener := e.Chance(1, 4)
	vsys.K.ReuseAdversary = e.Chance(1, 2)

	nclients := 1 + e.Intn(6)
	clients := make([]*c13Client, nclients)
	for i := range clients {
		clients[i] = &c13Client{id: i, fd: -1, delay: int64(e.Pick(0, 0, 1, 3, 20)) * int64(time.Millisecond) / 2,
			send: e.Pick(0, 1, 10, 200), closeAt: e.Intn(4)}
	}
	handlerMode := e.Intn(3) // 0 return at once, 1 virtual sleep, 2 gate
	emfile := e.Chance(1, 5)
	emfileFrom := int64(e.Pick(0, 1, 5)) * int64(time.Millisecond) / 2
	emfileLen := int64(e.Pick(1, 30, 300, 1500)) * int64(time.Millisecond)
	shutdownAt := int64(e.Pick(0, 1, 5, 40, 400)) * int64(time.Millisecond) / 2
	deadline := time.Duration(e.Pick(1, 20, 120, 3000)) * time.Millisecond
	e.Summary = fmt.Sprintf("pollers=%d netListener=%v clients=%d handler=%d emfile=%v(%dus+%dus) shutdownAt=%dus deadline=%v faults=%v",
		e.Pollers, useNetListener, nclients, handlerMode, emfile, emfileFrom/1000, emfileLen/1000, shutdownAt/1000, deadline, faults)
	for _, c := range clients {
		e.Summary += fmt.Sprintf(" c%d{+%dus send=%d closeAt=%d}", c.id, c.delay/1000, c.send, c.closeAt)
	}

	var conns []*c13Conn
	gates := false
	busyTotal := 0
	onReq := func(ctx context.Context, c Connection) error {
		cc := ctx.Value(c13Key{}).(*c13Conn)
		cc.busy++
		busyTotal++
		rd := c.Reader()
		if l := rd.Len(); l > 0 {
			rd.Skip(l)
			rd.Release()
		}
		switch handlerMode {
		case 1:
			vtime.Sleep(time.Duration(e.Pick(1, 10, 100)) * time.Millisecond)
		case 2:
			simrt.WaitUntil("gate(handler)", func() bool { return gates })
		}
		cc.busy--
		busyTotal--
		return nil
	}
	evl, _ := NewEventLoop(onReq, WithOnPrepare(func(c Connection) context.Context {
		cc := &c13Conn{c: c.(*connection), closed: -1, prepared: simrt.Step()}
		cc.fd = cc.c.fd
		conns = append(conns, cc)
		simrt.Publish()
		c.AddCloseCallback(func(Connection) error {
			cc.closed = simrt.Step()
			simrt.Publish()
			if cc.busy > 0 {
				e.FailP("C05", "no-close-callback-during-handler", "closecb-during-handler", "close callback ran while the connection's handler is in progress (Shutdown must leave busy connections alone)")
			}
			return nil
		})
		return context.WithValue(context.Background(), c13Key{}, cc)
	}))

	// ---- listener
	var ln net.Listener
	var path string
	if useNetListener {
		path = fmt.Sprintf("/tmp/simnp-%d-c13.sock", syscall.Getpid())
		syscall.Unlink(path)
		e.tmpPaths = append(e.tmpPaths, path)
		before := openSet()
		nl, err := net.Listen("unix", path)
		if err != nil {
			panic("harness: net.Listen: " + err.Error())
		}
		if ul, ok := nl.(*net.UnixListener); ok {
			ul.SetUnlinkOnClose(false)
		}
		// convert here (Serve would do the same) so that the ledger knows the duplicate netpoll takes
		npln, err := ConvertListener(nl)
		if err != nil {
			panic("harness: ConvertListener: " + err.Error())
		}
		vsys.Adopt(npln.Fd())
		ln = npln
		stdFds = newFds(before)
	} else {
		ln, path = e.NewRawListener("c13")
	}
	serveReturned := false
	e.loops = nil
	lastServer = nil
	simrt.GoNamed("serve", false, func() {
		err := evl.Serve(ln)
		serveReturned = true
		e.Rec("serve-return", 0, 0, fmt.Sprint(err))
	})
	simrt.WaitUntil("serving", func() bool {
		if s := evl.(*eventLoop).svr; s != nil {
			lastServer = s
		}
		return lastServer != nil
	})

	// ---- EMFILE stretch
	emfileEnd := int64(-1)
	if emfile {
		simrt.GoNamed("emfile", false, func() {
			simrt.Sleep(emfileFrom)
			vsys.K.EMFILEActive = true
			simrt.Sleep(emfileLen)
			vsys.K.EMFILEActive = false
			emfileEnd = simrt.NowNanos()
		})
	}

	// ---- clients
	release := false
	for _, cl := range clients {
		cl := cl
		simrt.GoNamed(fmt.Sprintf("client%d", cl.id), false, func() {
			if cl.delay > 0 {
				simrt.Sleep(cl.delay)
			}
			fd, err := vsys.HConnectUnix(path)
			if err != nil {
				cl.done = true // listener already closed by Shutdown: refused
				return
			}
			cl.fd, cl.connected = fd, true
			if cl.closeAt == 0 {
				vsys.HClose(fd)
				cl.fd = -1
				cl.done = true
				return
			}
			if cl.send > 0 {
				PeerWriteAll(fd, streamBytes(13, 0, cl.send), func(r int) int { return r })
			}
			switch cl.closeAt {
			case 2:
				simrt.Sleep(int64(e.Pick(1, 10, 100)) * int64(time.Millisecond) / 2)
			case 3:
				simrt.WaitUntil("told to close", func() bool { return release })
			}
			vsys.HClose(fd)
			cl.fd = -1
			cl.done = true
		})
	}

	// ---- Shutdown
	var shutErr error
	shutReturned, shutInvoked := false, false
	var shutDeadlineNs, shutReturnNs int64
	shutTask := simrt.GoNamed("shutdown", false, func() {
		simrt.Sleep(shutdownAt)
		ctx, cancel := simrt.WithTimeout(context.Background(), deadline)
		shutDeadlineNs = simrt.NowNanos() + int64(deadline)
		shutInvoked = true
		shutErr = evl.Shutdown(ctx)
		shutReturnNs = simrt.NowNanos()
		shutReturned = true
		cancel()
		// verdicts at the moment of return (the nil case is judged once the accept path has come to
		// rest: a connection that was mid-accept is closed by the accept path itself right after)
		if shutErr == nil {
		} else {
			if shutErr != context.DeadlineExceeded {
				e.Fail("shutdown-error-is-ctx", "wrong-error", "Shutdown returned %v, the context's error is %v", shutErr, ctx.Err())
			}
			if shutReturnNs < shutDeadlineNs {
				e.Fail("shutdown-error-is-ctx", "early-error", "Shutdown returned %v %dus before its deadline", shutErr, (shutDeadlineNs-shutReturnNs)/1000)
			}
		}
	})
	_ = shutTask

	untrackedBusy := ""
	// ---- tracking monitor, evaluated whenever the world is stable and nobody is inside accept
	simrt.WaitQuiescentFor(6e9)
	e.nonTriv = len(conns) > 0
	if shutReturned && shutErr == nil {
		// judged while the clients still hold their ends open: nothing the peers do later may be what
		// closes a connection that a successful Shutdown left behind
		if n := trackedLen(); n > 0 {
			e.Fail("shutdown-nil-means-empty", "nil-with-tracked", "Shutdown returned nil and the accept path is at rest, but %d connections are still tracked (clients still connected)", n)
		}
		for _, cc := range conns {
			if cc.closed < 0 {
				v, ok := lastServer.connections.Load(cc.fd)
				if tracked := ok && v == Connection(cc.c); !tracked && !cc.c.IsActive() && cc.busy > 0 {
					// recorded finding (reported last): the peer hung up while the connection was being
					// accepted and a handler was already running on it, so onAccept never tracked it
					untrackedBusy = fmt.Sprintf("Shutdown returned nil while the handler of an accepted connection (fd %d) is still running: the peer closed it during its accept, so the server never tracked it", cc.fd)
					continue
				}
				e.Fail("shutdown-nil-means-empty", "nil-with-open-conn", "Shutdown returned nil and the accept path is at rest, but an accepted connection (fd %d) is still open and served while its client is connected", cc.fd)
				break
			}
		}
	}
	if !shutReturned && shutInvoked {
		// Shutdown may legitimately wait: only for busy (gated) handlers or idle clients that keep
		// their connection open... idle connections are closed by Shutdown itself, so only busy ones
		if busyTotal == 0 {
			e.Fail("shutdown-terminates", "stuck-without-busy", "Shutdown has not returned at quiescence although no handler is in progress; tracked=%d tasks=%v", trackedLen(), simrt.TaskStates())
		}
	}
	// EMFILE: after the stretch ended, clients that connected must have been accepted
	if emfile && emfileEnd >= 0 && !shutInvokedBefore(shutdownAt, emfileEnd) {
		connected := 0
		for _, cl := range clients {
			if cl.connected {
				connected++
			}
		}
		if len(conns) < connected && !shutInvoked {
			e.Fail("accept-resumes", "accept-not-resumed", "%d clients connected, the descriptor shortage ended at +%dus and everything is quiet at +%dus, but only %d were accepted", connected, emfileEnd/1000, simrt.NowNanos()/1000, len(conns))
		}
	}
	// release everybody: gates open, clients close
	gates, release = true, true
	simrt.WaitQuiescentFor(6e9)
	if shutInvoked && !shutReturned {
		e.Fail("shutdown-terminates", "stuck-after-release", "all clients are gone and all handlers returned, Shutdown still has not returned; tracked=%d tasks=%v", trackedLen(), simrt.TaskStates())
	}
	if shutReturned && shutErr == nil {
		if n := trackedLen(); n > 0 {
			e.Fail("shutdown-nil-means-empty", "nil-with-tracked", "Shutdown returned nil and everything is quiet, but %d connections are still tracked", n)
		}
		for _, cc := range conns {
			if cc.closed < 0 {
				e.Fail("shutdown-nil-means-empty", "nil-with-open-conn", "Shutdown returned nil and everything is quiet, but an accepted connection (fd %d) has not been closed", cc.fd)
				break
			}
		}
	}
	if shutReturned && shutErr == nil && !serveReturned {
		e.Fail("serve-returns", "serve-not-returned", "Shutdown returned nil but Serve has not returned")
	}
	// tracked set == accepted and not closed
	if svr := lastServer; svr != nil && !shutReturned {
		open := 0
		for _, cc := range conns {
			if cc.closed < 0 {
				open++
			}
		}
		if n := trackedLen(); n != open {
			e.Fail("tracked-equals-open", "tracked-mismatch", "%d connections are tracked, %d accepted connections are open", n, open)
		}
	}
	for _, cl := range clients {
		if cl.fd >= 0 {
			vsys.HClose(cl.fd)
		}
	}
	if !shutReturned {
		evl.Shutdown(context.Background())
	}
	simrt.WaitQuiescentFor(6e9)
	// "Shutdown stops accepting": somebody else opens a listener afterwards (it may get the descriptor
	// number the server's listener had) and a client connects to it; the shut-down server must not
	// accept that client
	if shutReturned && !vsys.K.ReuseAdversary && e.Chance(1, 2) {
		accepted := len(conns)
		path2 := fmt.Sprintf("/tmp/simnp-%d-c13b.sock", syscall.Getpid())
		e.tmpPaths = append(e.tmpPaths, path2)
		if lfd2, err := vsys.HListenUnix(path2, 8); err == nil {
			if cfd, err := vsys.HConnectUnix(path2); err == nil {
				simrt.WaitQuiescentFor(3e9)
				if len(conns) > accepted {
					e.Fail("shutdown-stops-accepting", "accepted-after-shutdown", "after Shutdown returned, a client that connected to an unrelated listener (descriptor %d, the number the server's listener had) was accepted by the shut-down server", lfd2)
				}
				vsys.HClose(cfd)
			}
			vsys.HClose(lfd2)
		}
	}
	if useNetListener {
		// the std listener's descriptor is outside vsys: after Close everything it opened must be gone
		for _, fd := range stdFds {
			var st syscall.Stat_t
			if syscall.Fstat(fd, &st) == nil && !isTripwire(fd) {
				e.FailP("C15", "no-descriptor-left", "listener-fd-left", "descriptor %d opened for the net.Listener is still open after Close", fd)
			}
		}
	}
	e.State = fmt.Sprintf("%d/%d/%v/%v", len(conns), nclients, shutErr, serveReturned)
	e.Teardown()
	CheckLedger(e)
	if untrackedBusy != "" {
		// reported last so that this recorded finding never hides another violation of the run
		e.Fail("shutdown-nil-means-empty", "nil-with-untracked-busy-conn/peer-closed-during-accept", "%s", untrackedBusy)
	}
}

type c13Key struct{}

var lastServer *server
var stdFds []int

func trackedLen() int {
	if lastServer == nil {
		return -1
	}
	// entries of connections that are torn down already (descriptor closed) do not count: the property
	// wants a connection tracked until it is closed, not forgotten at once afterwards
	n := 0
	lastServer.connections.Range(func(k, v interface{}) bool {
		if c, ok := v.(*connection); !ok || atomic.LoadUint32(&c.netFD.closed) == 0 {
			n++
		}
		return true
	})
	return n
}

func shutInvokedBefore(at, t int64) bool { return at <= t }

func openSet() map[int]bool {
	m := map[int]bool{}
	for _, fd := range vsys.OpenDescriptors() {
		m[fd] = true
	}
	return m
}

func newFds(before map[int]bool) []int {
	var out []int
	for _, fd := range vsys.OpenDescriptors() {
		if !before[fd] {
			out = append(out, fd)
		}
	}
	return out
}

func isTripwire(fd int) bool { return fd < vsys.MaxFD && vsys.FDs[fd].Tripwire }
