//go:build go1.22

package netpoll

import (
	"bytes"
	"context"
	"fmt"
	"time"

	"verif.local/simrt"
	"verif.local/simrt/vsys"
	"verif.local/simrt/vtime"
)

// C07 - a blocked reader wakes on data, close or timeout, and only then.

func init() {
	registerScenario(&Scenario{Name: "c07_reader", Property: "C07", MaxSteps: 6000, Run: runC07,
		Desc: "one reader issuing timed/untimed Reader calls against a peer that delivers a chunked stream, may close; optional local closer; timer firing is a scheduling choice"})
}

type c07Call struct {
	op      string
	n       int
	cfg     string // none | timeout | deadline | pastdeadline
	d       time.Duration
	release bool
}

func runC07(e *Env) {
	faults := e.Chance(1, 2)
	e.Setup(1+e.Intn(2), faults)
	vtime.AsyncChan = e.Chance(2, 3)
	mode := e.Intn(3)
	conn, peer := e.NewConnMode(mode)
	const stream = 7

	// reader plan
	ncalls := 1 + e.Intn(5)
	calls := make([]c07Call, ncalls)
	need := 0
	ops := []string{"Next", "Peek", "Skip", "ReadBinary", "ReadString", "ReadByte", "Slice", "Read", "Until"}
	for i := range calls {
		c := &calls[i]
		c.op = ops[e.Intn(len(ops))]
		c.n = e.Pick(1, 1, 2, 3, 5, 8, 17, 64, 300, 5000)
		if c.op == "ReadByte" {
			c.n = 1
		}
		switch e.Intn(6) {
		case 0, 1:
			c.cfg = "none"
		case 2, 3:
			c.cfg, c.d = "timeout", time.Duration(e.Pick(1, 5, 50))*time.Millisecond
		case 4:
			c.cfg, c.d = "deadline", time.Duration(e.Pick(1, 5, 50))*time.Millisecond
		case 5:
			c.cfg = "pastdeadline"
		}
		c.release = e.Chance(1, 2)
		if c.op != "Peek" {
			need += c.n
		}
	}
	// peer plan: how much it sends in total relative to the need, chunking, pauses, ending
	total := 0
	switch e.Intn(4) {
	case 0:
		total = need
	case 1:
		total = need + e.Intn(20)
	case 2:
		total = e.Intn(need + 1)
	case 3:
		total = need - 1
	}
	if total < 0 {
		total = 0
	}
	ending := e.Intn(3) // 0 stay open, 1 close, 2 shutdown(write)
	localClose := e.Chance(1, 4)
	pauses := e.Chance(1, 2)
	discWaits := ending != 0 && e.Chance(1, 2) // OnDisconnect waits for the reader, see below
	data := streamBytes(stream, 0, total)
	// Until needs delimiters: the line an Until call is to return is exactly its n bytes long (the
	// stream bytes themselves never contain a newline), so lines of 1..5000 bytes arrive in any chunking
	off := 0
	for i := range calls {
		if calls[i].op == "Until" && off+calls[i].n-1 < len(data) {
			data[off+calls[i].n-1] = '\n'
		}
		if calls[i].op != "Peek" {
			off += calls[i].n
		}
	}
	e.Summary = fmt.Sprintf("mode=%d calls=%v total=%d ending=%d localClose=%v faults=%v async=%v discWaits=%v", mode, calls, total, ending, localClose, faults, vtime.AsyncChan, discWaits)

	peerDone := false
	peerClosedSeq := -1
	written := 0
	simrt.GoNamed("peer", false, func() {
		off := 0
		for off < len(data) {
			n := 1 + e.Intn(1+e.Pick(1, 3, 9, 40, 700, 6000))
			if n > len(data)-off {
				n = len(data) - off
			}
			if pauses && e.Chance(1, 3) {
				simrt.Sleep(int64(e.Pick(1, 2, 10, 100)) * int64(time.Millisecond) / 2)
			}
			w, err := PeerWriteAll(peer, data[off:off+n], func(r int) int { return r })
			off += w
			written = off
			if err != nil {
				break
			}
		}
		if pauses && e.Chance(1, 3) {
			simrt.Sleep(int64(e.Pick(1, 10, 100)) * int64(time.Millisecond))
		}
		switch ending {
		case 1:
			vsys.HClose(peer)
			peer = -1
			peerClosedSeq = simrt.Step()
		case 2:
			vsys.HShutdown(peer, 1)
			peerClosedSeq = simrt.Step()
		}
		peerDone = true
	})

	// an OnDisconnect callback that waits for the reader (half of the runs with a closing peer): the
	// wake-up of a blocked reader must not depend on the return of user callbacks - whoever reports the
	// hang-up wakes the reader first. A reader left blocked is reported by the stuck oracle below.
	readerFinished := false
	if discWaits {
		conn.onDisconnectCallback.Store(OnDisconnect(func(ctx context.Context, c Connection) {
			simrt.Probe("c07-ondisconnect-waits-for-reader")
			e.Rec("ondisconnect-waits", 0, 0, "")
			simrt.WaitUntil("OnDisconnect waits for the reader", func() bool { return readerFinished })
			e.Rec("ondisconnect-done", 0, 0, "")
		}))
	}
	closeInvokedSeq := -1
	if localClose {
		simrt.GoNamed("closer", false, func() {
			if e.Chance(1, 2) {
				simrt.Sleep(int64(e.Pick(1, 3, 20)) * int64(time.Millisecond))
			}
			closeInvokedSeq = simrt.Step()
			e.LocalCloseAt, e.ReaderTask = closeInvokedSeq, "reader"
			conn.Close()
		})
	}

	// the reader
	consumed := 0
	cur := -1 // index of the call in progress
	var curInvokeNs int64
	readerDone := false
	check := func(i int, got []byte, what string) {
		if closeInvokedSeq >= 0 {
			return // a local Close releases the buffers: zero-copy results are void from then on
		}
		if bad := checkStreamData(data, consumed, got); bad >= 0 {
			e.Fail("read-content", "content/"+calls[i].op, "call %d %s: byte %d of result differs from stream position %d (%s)", i, calls[i].op, bad, consumed+bad, what)
		}
	}
	readerT := simrt.GoNamed("reader", false, func() {
		for i := range calls {
			c := calls[i]
			var dlAbs int64
			switch c.cfg {
			case "none":
				conn.SetReadTimeout(0)
				conn.SetReadDeadline(time.Time{})
			case "timeout":
				conn.SetReadDeadline(time.Time{})
				conn.SetReadTimeout(c.d)
			case "deadline":
				dlAbs = simrt.UnixNano() + int64(c.d)
				conn.SetReadDeadline(time.Unix(0, dlAbs))
			case "pastdeadline":
				conn.SetReadDeadline(vtime.Now().Add(-time.Millisecond))
			}
			b0 := conn.inputBuffer.Len()
			t0 := simrt.NowNanos()
			jumps0 := clockJumps()
			cur, curInvokeNs = i, t0
			e.Rec("invoke", i, b0, c.op)
			var err error
			var got []byte
			n := c.n
			switch c.op {
			case "Next":
				got, err = conn.Next(n)
			case "Peek":
				got, err = conn.Peek(n)
			case "Skip":
				err = conn.Skip(n)
			case "ReadBinary":
				got, err = conn.ReadBinary(n)
			case "ReadString":
				var s string
				s, err = conn.ReadString(n)
				got = []byte(s)
			case "ReadByte":
				var b byte
				b, err = conn.ReadByte()
				got = []byte{b}
			case "Slice":
				var r Reader
				r, err = conn.Slice(n)
				if err == nil {
					got, _ = r.Next(r.Len())
					got = append([]byte(nil), got...)
					r.Release()
				}
			case "Read":
				p := make([]byte, n)
				var k int
				k, err = conn.Read(p)
				got = p[:k]
			case "Until":
				got, err = conn.Until('\n')
			}
			t1 := simrt.NowNanos()
			b1 := conn.inputBuffer.Len()
			cur = -1
			e.Rec("return", i, b1, errName(err))
			e.nonTriv = e.nonTriv || b0 < n
			// ---- oracle for this call
			switch {
			case err == nil:
				switch c.op {
				case "Skip":
					consumed += n
				case "Peek":
					if len(got) != n {
						e.Fail("read-length", "length/"+c.op, "call %d %s(%d) returned %d bytes", i, c.op, n, len(got))
					}
					check(i, got, "peek")
				case "Read":
					if len(got) == 0 || len(got) > n {
						e.Fail("read-length", "length/Read", "call %d Read(len %d) returned %d with nil error", i, n, len(got))
					}
					check(i, got, "read")
					consumed += len(got)
				case "Until":
					// (the delimiter test looks at content: void once a local Close has released the buffers)
					if len(got) == 0 || (got[len(got)-1] != '\n' && closeInvokedSeq < 0) {
						e.Fail("read-length", "length/Until", "call %d Until returned %q without delimiter and nil error", i, trunc(got))
					}
					if k := bytes.IndexByte(got, '\n'); k >= 0 && k < len(got)-1 && closeInvokedSeq < 0 {
						e.Fail("read-length", "length/Until-past-delimiter", "call %d Until returned %d bytes with a delimiter at position %d: it must stop at the first one", i, len(got), k)
					}
					check(i, got, "until")
					consumed += len(got)
				default:
					if len(got) != n {
						e.Fail("read-length", "length/"+c.op, "call %d %s(%d) returned %d bytes", i, c.op, n, len(got))
					}
					check(i, got, c.op)
					consumed += n
				}
				if b0 >= n && c.op != "Until" && (t1 != t0 || clockJumps() != jumps0) {
					// satisfied from the buffer: must not have needed the clock
					// (the clock may move because of other tasks; only flag when this call is the reason)
				}
			case isErr(err, ErrReadTimeout):
				if c.cfg == "none" {
					e.Fail("timeout-unconfigured", "timeout/unconfigured/"+c.op, "call %d %s returned ErrReadTimeout with no timeout configured", i, c.op)
				}
				if b0 >= n && c.op != "Until" && c.cfg != "pastdeadline" {
					e.Fail("timeout-with-data", "timeout/with-data/"+c.op, "call %d %s(%d) timed out although %d bytes were buffered at invocation", i, c.op, n, b0)
				}
				if c.cfg == "deadline" && simrt.UnixNano() < dlAbs {
					e.Fail("timeout-early", "timeout/early/"+c.op, "call %d %s timed out %dus before its deadline (stale tick or trigger?)", i, c.op, (dlAbs-simrt.UnixNano())/1000)
				}
				if c.cfg == "timeout" {
					if t1 < t0+int64(c.d) {
						e.Fail("timeout-early", "timeout/early/"+c.op, "call %d %s timed out at +%dus, configured %dus (stale tick or trigger?)", i, c.op, (t1-t0)/1000, int64(c.d)/1000)
					}
				}
				if b1 < b0 && c.op != "Until" { // Until documents that it hands back what is buffered together with the error
					e.Fail("timeout-consumed", "timeout/consumed/"+c.op, "call %d %s timed out and buffered bytes went from %d to %d", i, c.op, b0, b1)
				}
				if c.op == "Until" {
					check(i, got, "until-timeout")
					consumed += len(got) // Until hands back what is buffered
				}
			case isErr(err, ErrEOF):
				if peerClosedSeq < 0 {
					e.Fail("eof-without-close", "eof/no-close/"+c.op, "call %d %s returned ErrEOF but the peer never closed", i, c.op)
				}
				if c.op == "Until" {
					// everything the peer sent was buffered before its close was published: a complete
					// line among it has to be returned, not handed back together with the error
					if k := bytes.IndexByte(got, '\n'); k >= 0 && closeInvokedSeq < 0 {
						e.Fail("eof-with-data", "eof/with-line/Until", "call %d Until returned ErrEOF and handed back %d bytes with a delimiter at position %d: the line was complete before the peer closed", i, len(got), k)
					}
					check(i, got, "until-eof")
					consumed += len(got)
				} else if b1 >= n {
					fn := "waitRead"
					if c.cfg == "timeout" || c.cfg == "deadline" {
						fn = "waitReadWithTimeout"
					}
					e.Fail("eof-with-data", "eof/with-data/"+fn, "call %d %s(%d) returned ErrEOF although %d bytes are buffered (all of them arrived before the close)", i, c.op, n, b1)
				}
			case isErr(err, ErrConnClosed):
				if closeInvokedSeq < 0 {
					e.Fail("closed-without-close", "closed/no-close/"+c.op, "call %d %s returned ErrConnClosed but nobody closed the connection", i, c.op)
				}
				if c.op == "Until" {
					consumed += len(got)
				}
			default:
				e.Fail("unexpected-error", "error/"+c.op, "call %d %s(%d) returned %v", i, c.op, n, err)
			}
			if err != nil && !isErr(err, ErrReadTimeout) {
				break // connection is finished
			}
			if c.release {
				conn.Release()
			}
		}
		readerDone = true
		readerFinished = true
	})

	// ---- quiescence: every timer has fired, the peer is done
	simrt.WaitQuiescent(true)
	if !peerDone {
		// the peer can only be stuck when nobody reads: fine, release it by closing below
	}
	if !readerDone && cur >= 0 && !readerT.Exited() {
		c := calls[cur]
		avail := written - consumed
		active := conn.IsActive()
		why := ""
		switch {
		case c.cfg != "none" && c.cfg != "pastdeadline":
			why = fmt.Sprintf("a %s of %v was configured at +%dus and every timer has fired (now +%dus)", c.cfg, c.d, curInvokeNs/1000, simrt.NowNanos()/1000)
		case !active:
			why = "the connection is closed"
		case avail >= c.n && c.op != "Until":
			why = fmt.Sprintf("%d bytes are available for a call needing %d", avail, c.n)
		case c.op == "Until" && consumed <= written && bytes.IndexByte(data[consumed:written], '\n') >= 0:
			why = fmt.Sprintf("a delimiter is among the %d bytes that are available (position %d of them)", avail, bytes.IndexByte(data[consumed:written], '\n'))
		case ending != 0 && peerDone:
			why = "the peer closed its end and the poller is idle"
		}
		if why != "" {
			e.Fail("reader-stuck", "stuck/"+c.op+"/"+c.cfg, "reader blocked in call %d %s(%d) at quiescence although %s; tasks=%v", cur, c.op, c.n, why, simrt.TaskStates())
		}
	}
	// release whoever is left by closing locally: a blocked reader must now return ErrConnClosed
	if closeInvokedSeq < 0 {
		closeInvokedSeq = simrt.Step()
	}
	conn.Close()
	simrt.WaitQuiescent(true)
	if !readerDone && !readerT.Exited() {
		e.Fail("reader-stuck-after-close", "stuck-after-close", "reader still blocked after local Close; tasks=%v", simrt.TaskStates())
	}
	if peer >= 0 {
		vsys.HClose(peer)
	}
	e.State = fmt.Sprintf("%d/%d/%v", len(e.Hist), consumed, readerDone)
	e.Teardown()
}

func checkStreamData(data []byte, from int, got []byte) int {
	for i, c := range got {
		if from+i >= len(data) || data[from+i] != c {
			return i
		}
	}
	return -1
}

func trunc(b []byte) string {
	if len(b) > 24 {
		return string(b[:24]) + "..."
	}
	return string(b)
}

func clockJumps() int64 { return simrt.NowNanos() }
