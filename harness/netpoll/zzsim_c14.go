//go:build go1.22

package netpoll

// C14 - a dial ends in a usable connection or a clean error within its timeout.
// TCP targets run over vsys' virtual TCP (asynchronous connect emulated over AF_UNIX, a stub of
// the handshake only); unix targets use the real kernel directly.

import (
	"fmt"
	"net"
	"reflect"
	"strings"
	"syscall"
	"time"

	"verif.local/simrt"
	"verif.local/simrt/vsys"
	"verif.local/simrt/vtime"
)

func init() {
	registerScenario(&Scenario{Name: "c14_dial", Property: "C14", MaxSteps: 30000, Run: runC14,
		Desc: "1-6 concurrent DialConnection calls against TCP (v4/v6 literal) targets that accept after a virtual delay, refuse, drop or reset, and unix targets that listen or are absent; timeouts below/at/above the connect latency"})
}

type c14Target struct {
	kind  string // tcp4 | tcp6 | unix | unix-absent
	mode  int
	delay int64
	port  int
	path  string
	vl    *vsys.VListener
	lfd   int
}

func isNilConn(c Connection) bool {
	if c == nil {
		return true
	}
	v := reflect.ValueOf(c)
	return v.Kind() == reflect.Ptr && v.IsNil()
}

func runC14(e *Env) {
	e.Setup(1+e.Intn(2), e.Chance(1, 3))
	vtime.AsyncChan = e.Chance(2, 3)
	vsys.K.ReuseAdversary = e.Chance(1, 3)
	ntargets := 1 + e.Intn(3)
	targets := make([]*c14Target, ntargets)
	var fullLfds, fullConns []int
	stop := false
	for i := range targets {
		t := &c14Target{port: 5000 + i, lfd: -1}
		switch e.Intn(7) {
		case 0, 1, 2:
			t.kind = "tcp4"
		case 3:
			t.kind = "tcp6"
		case 4:
			t.kind = "unix"
		case 5:
			t.kind = "unix-absent"
		case 6:
			t.kind = "unix-full" // a listener that never accepts and whose backlog is full
		}
		if t.kind == "tcp4" || t.kind == "tcp6" {
			t.mode = []int{vsys.VAccept, vsys.VAccept, vsys.VRefuse, vsys.VDrop, vsys.VResetOK}[e.Intn(5)]
			t.delay = int64(e.Pick(0, 0, 500, 1000, 5000, 100000)) * 1000
			t.vl = vsys.VListen(t.port, t.mode, t.delay)
			t.lfd = t.vl.LFD
		} else {
			t.path = fmt.Sprintf("/tmp/simnp-%d-c14-%d.sock", syscall.Getpid(), i)
			syscall.Unlink(t.path)
			e.tmpPaths = append(e.tmpPaths, t.path)
			if t.kind == "unix" {
				fd, err := vsys.HListenUnix(t.path, 16)
				if err != nil {
					panic("harness: listen: " + err.Error())
				}
				t.lfd = fd
			}
			if t.kind == "unix-full" {
				fd, err := vsys.HListenUnix(t.path, 0)
				if err != nil {
					panic("harness: listen: " + err.Error())
				}
				fullLfds = append(fullLfds, fd)
				// fill the accept queue: connects succeed until the kernel says EAGAIN
				for k := 0; k < 64; k++ {
					c, cerr := vsys.HConnectUnix(t.path)
					if cerr != nil {
						break
					}
					fullConns = append(fullConns, c)
				}
			}
		}
		targets[i] = t
		// acceptor with echo
		if t.lfd >= 0 {
			t := t
			simrt.GoNamed("acceptor", false, func() {
				for !stop {
					simrt.WaitUntil("connection pending or stop", func() bool { return stop || vsys.HReadable(t.lfd) })
					if stop {
						return
					}
					pfd, err := vsys.HAccept(t.lfd)
					if err != nil {
						continue
					}
					if t.mode == vsys.VResetOK && t.vl != nil {
						vsys.HClose(pfd)
						continue
					}
					simrt.GoNamed("echo", false, func() {
						for {
							b, err := PeerReadSome(pfd, 256)
							if err != nil {
								vsys.HClose(pfd)
								return
							}
							if b == nil {
								simrt.WaitUntil("echo input or stop", func() bool { return stop || vsys.HReadable(pfd) })
								if stop {
									vsys.HClose(pfd)
									return
								}
								continue
							}
							PeerWriteAll(pfd, b, func(r int) int { return r })
						}
					})
				}
			})
		}
	}

	ndials := 1 + e.Intn(6)
	type dial struct {
		t        *c14Target
		timeout  time.Duration
		done     bool
		dialed   bool
		err      error
		conn     Connection
		t0, t1   int64
		echoOK   bool
		echoErr  string
	}
	dials := make([]*dial, ndials)
	e.Summary = fmt.Sprintf("pollers=%d dials=%d", e.Pollers, ndials)
	for i := range dials {
		d := &dial{t: targets[e.Intn(ntargets)], timeout: time.Duration(e.Pick(0, 1, 5, 50)) * time.Millisecond}
		if d.timeout == 0 && d.t.vl != nil && d.t.mode == vsys.VDrop {
			d.timeout = 5 * time.Millisecond // an untimed dial into a black hole legitimately never returns
		}
		dials[i] = d
		e.Summary += fmt.Sprintf(" d%d{%s mode=%d delay=%dus timeout=%v}", i, d.t.kind, d.t.mode, d.t.delay/1000, d.timeout)
		i := i
		simrt.GoNamed(fmt.Sprintf("dial%d", i), false, func() {
			var network, addr string
			switch d.t.kind {
			case "tcp4":
				network, addr = "tcp", fmt.Sprintf("127.0.0.1:%d", d.t.port)
			case "tcp6":
				network, addr = "tcp", fmt.Sprintf("[::1]:%d", d.t.port)
			default:
				network, addr = "unix", d.t.path
			}
			d.t0 = simrt.NowNanos()
			c, err := DialConnection(network, addr, d.timeout)
			d.t1 = simrt.NowNanos()
			d.conn, d.err = c, err
			if err == nil && !isNilConn(c) {
				// usable in both directions
				msg := []byte(fmt.Sprintf("ping-%d", i))
				d.dialed = true
				if _, werr := c.Write(msg); werr != nil {
					d.echoErr = "write: " + werr.Error()
				} else if got, rerr := c.Reader().Next(len(msg)); rerr != nil {
					d.echoErr = "read: " + rerr.Error()
				} else if string(got) != string(msg) {
					d.echoErr = fmt.Sprintf("echo mismatch %q", got)
				} else {
					d.echoOK = true
				}
			}
			d.done = true
		})
	}

	simrt.WaitQuiescentFor(10e9)
	e.nonTriv = true
	typedNil := ""
	for i, d := range dials {
		tag := d.t.kind
		if !d.done && d.dialed {
			e.Fail("dial-usable", "not-usable/"+tag, "dial %d returned a connection, but an echo round trip over it never completes; tasks=%v", i, simrt.TaskStates())
			continue
		}
		if !d.done {
			e.Fail("dial-returns", "dial-stuck/"+tag, "dial %d (%s mode %d delay %dus timeout %v) has not returned although every timer up to +10s has fired; tasks=%v", i, d.t.kind, d.t.mode, d.t.delay/1000, d.timeout, simrt.TaskStates())
			continue
		}
		nilConn := isNilConn(d.conn)
		if d.err != nil && d.conn != nil && nilConn {
			// recorded known finding: the interface is non-nil although it holds a nil pointer
			typedNil = fmt.Sprintf("dial %d failed with %v and returned a Connection interface that is != nil (it wraps a nil %T)", i, d.err, d.conn)
		}
		if d.err != nil && !nilConn {
			e.Fail("exactly-one-result", "both", "dial %d returned both a connection and the error %v", i, d.err)
		}
		if d.err == nil && nilConn {
			e.Fail("exactly-one-result", "neither", "dial %d returned neither a connection nor an error", i)
		}
		willComplete := d.t.kind == "unix" || (d.t.vl != nil && (d.t.mode == vsys.VAccept || d.t.mode == vsys.VResetOK))
		lat := d.t.delay
		if d.t.kind == "unix" {
			lat = 0
		}
		if d.err == nil && !nilConn {
			if !willComplete {
				e.Fail("dial-result", "connected-to-nothing/"+tag, "dial %d to a target that refuses/drops/is absent returned a connection", i)
			}
			cc := connOf(d.conn)
			if cc != nil && d.echoOK {
				// registered with a poller
				if cc.operator == nil || cc.operator.poll == nil {
					e.Fail("dial-registered", "not-registered", "dial %d returned a connection without poller registration", i)
				}
			}
			if !d.echoOK && !(d.t.vl != nil && d.t.mode == vsys.VResetOK) {
				e.Fail("dial-usable", "not-usable/"+tag, "dial %d returned a connection that is not usable in both directions: %s", i, d.echoErr)
			}
		}
		if d.err != nil {
			// a dial into a black hole can only end by its timeout; any error that says "timeout" is one
			mustBeTimeout := d.timeout > 0 && d.t.vl != nil && d.t.mode == vsys.VDrop
			if mustBeTimeout || strings.Contains(d.err.Error(), "timeout") {
				if ne, ok := d.err.(net.Error); !ok || !ne.Timeout() {
					e.Fail("timeout-error-reports-timeout", "timeout-not-reported", "dial %d timed out after %v but its error %q does not report Timeout()", i, d.timeout, d.err)
				}
				if d.t1-d.t0 < int64(d.timeout) {
					e.Fail("timeout-not-early", "timeout-early", "dial %d failed with a timeout %dus after it started, configured %v", i, (d.t1-d.t0)/1000, d.timeout)
				}
			}
			if willComplete && (d.timeout == 0 || lat < int64(d.timeout)) && d.t.kind != "unix" && d.t.mode == vsys.VAccept {
				// completes well within the timeout: must succeed (the timer may only win when it is due)
				if d.t1-d.t0 < int64(d.timeout) || d.timeout == 0 {
					e.Fail("dial-result", "failed-although-accepted/"+tag, "dial %d to an accepting target (latency %dus, timeout %v) failed after %dus: %v", i, lat/1000, d.timeout, (d.t1-d.t0)/1000, d.err)
				}
			}
		}
	}
	// clean up: close the connections, stop the acceptors
	for _, d := range dials {
		if d.err == nil && !isNilConn(d.conn) {
			d.conn.Close()
		}
	}
	stop = true
	simrt.WaitQuiescentFor(3e9)
	for _, t := range targets {
		if t.lfd >= 0 && t.vl == nil {
			vsys.HClose(t.lfd)
		}
	}
	for _, fd := range append(fullConns, fullLfds...) {
		vsys.HClose(fd)
	}
	// a failed or timed-out dial leaves no descriptor behind (and every successful one was closed above)
	for fd := range vsys.FDs {
		if f := &vsys.FDs[fd]; f.Open && f.Owner == vsys.OwnNetpoll && f.Kind == "socket" {
			e.Fail("no-descriptor-left", "descriptor-left", "socket descriptor %d opened by a dial is still open after every dial returned and every returned connection was closed (%d dials, %d of them failed)", fd, len(dials), failedDials(len(dials), func(i int) bool { return dials[i].err != nil }))
			break
		}
	}
	// no poller slot may stay allocated
	for _, p := range pollmanager.polls {
		dp := p.(*defaultPoll)
		inuse := 0
		for _, op := range dp.opcache.cache {
			if op.state != 0 {
				inuse++
			}
		}
		if inuse != 0 {
			e.Fail("slot-returned", "slot-leak", "%d poller slots are still allocated after every dial finished and every connection was closed", inuse)
		}
	}
	e.State = fmt.Sprint(len(dials), ntargets)
	e.Teardown()
	CheckLedger(e)
	if typedNil != "" {
		// reported last so that this recorded finding never hides another violation of the run
		e.Fail("exactly-one-result", "typed-nil-connection-with-error", "%s", typedNil)
	}
}

func failedDials(n int, failed func(int) bool) (k int) {
	for i := 0; i < n; i++ {
		if failed(i) {
			k++
		}
	}
	return k
}

func connOf(c Connection) *connection {
	switch x := c.(type) {
	case *TCPConnection:
		return &x.connection
	case *UnixConnection:
		return &x.connection
	case *connection:
		return x
	}
	return nil
}
