//go:build go1.22

package netpoll

// C08 - Flush completes exactly when the kernel has taken the data.
// C04 - a connection delivers the sender's byte stream intact (second scenario in this file).

import (
	"bytes"
	"context"
	"fmt"
	"syscall"
	"time"

	"verif.local/simrt"
	"verif.local/simrt/vsys"
	"verif.local/simrt/vtime"
)

func init() {
	registerScenario(&Scenario{Name: "c08_flush", Property: "C08", MaxSteps: 30000, Run: runC08,
		Desc: "one writer flushing payloads from 1 byte to several socket buffers, with/without write timeout or deadline, an optional concurrent Flush, a peer that drains at a pace, stalls or closes, an optional local closer"})
	registerScenario(&Scenario{Name: "c04_stream", Property: "C04", MaxSteps: 40000, Run: runC04,
		Desc: "two netpoll connections joined by a socket pair; the sender uses a mix of Writer methods and Write, the receiver a mix and pace of Reader calls or an OnRequest handler; kernel short writes/reads and tiny socket buffers"})
}

type c08Op struct {
	kind string // Write | Flush
	n    int
	cfg  string // none | timeout | deadline
	d    time.Duration
}

func runC08(e *Env) {
	faults := e.Chance(1, 2)
	e.Setup(1+e.Intn(2), faults)
	vtime.AsyncChan = e.Chance(2, 3)
	mode := e.Intn(3)
	conn, peer := e.NewConnMode(mode)
	sndbuf := e.Pick(4096, 4096, 16384)
	vsys.HSetBuf(conn.fd, sndbuf, sndbuf)
	vsys.HSetBuf(peer, sndbuf, sndbuf)
	const stream = 8

	nops := 1 + e.Intn(4)
	ops := make([]c08Op, nops)
	for i := range ops {
		o := &ops[i]
		o.kind = []string{"Write", "Flush", "Flush"}[e.Intn(3)]
		o.n = e.Pick(1, 100, 2000, 5000, 9000, 20000, 40000)
		switch e.Intn(4) {
		case 0, 1:
			o.cfg = "none"
		case 2:
			o.cfg, o.d = "timeout", time.Duration(e.Pick(1, 5, 50))*time.Millisecond
		case 3:
			o.cfg, o.d = "deadline", time.Duration(e.Pick(1, 5, 50))*time.Millisecond
		}
	}
	peerMode := e.Intn(4)     // 0 drain promptly, 1 drain slowly (sleeps), 2 stall until phase 2, 3 read some then close
	second := e.Chance(1, 3)  // a second goroutine calling Flush concurrently
	localClose := e.Chance(1, 6)
	for _, o := range ops {
		if o.cfg != "none" {
			// after ErrWriteTimeout the unsent tail is shared with the poller and must not be flushed
			// again (documented in waitFlush); a second flusher could do exactly that
			second = false
		}
	}
	e.Summary = fmt.Sprintf("mode=%d sndbuf=%d ops=%v peerMode=%d second=%v localClose=%v faults=%v", mode, sndbuf, ops, peerMode, second, localClose, faults)

	// ---- peer
	var got []byte
	peerClosed := false
	phase2 := false
	peerT := simrt.GoNamed("peer", false, func() {
		for {
			if peerMode == 2 && !phase2 {
				simrt.WaitUntil("phase 2", func() bool { return phase2 })
			}
			if peerMode == 3 && len(got) > 3000 && !phase2 {
				vsys.HClose(peer)
				peerClosed = true
				return
			}
			b, err := PeerReadSome(peer, 1+e.Intn(8192))
			if err != nil {
				return
			}
			if b == nil {
				simrt.WaitUntil("peer readable or told to stop", func() bool { return vsys.HReadable(peer) })
				continue
			}
			got = append(got, b...)
			if peerMode == 1 && !phase2 && e.Chance(1, 2) {
				simrt.Sleep(int64(e.Pick(1, 3, 20)) * int64(time.Millisecond) / 2)
			}
		}
	})
	_ = peerT

	closeSeq := -1
	if localClose {
		simrt.GoNamed("closer", false, func() {
			simrt.Sleep(int64(e.Pick(1, 3, 20)) * int64(time.Millisecond) / 2)
			closeSeq = simrt.Step()
			conn.Close()
		})
	}

	// ---- the writer
	type ival struct{ inv, ret int }
	var writerIvals []ival
	writerIn := -1
	submitted := 0
	wtask := -1
	allNil := true
	writerDone := false
	lastTimeout := false
	curOp := -1
	var curInvokeNs int64
	writerT := simrt.GoNamed("writer", false, func() {
		wtask = simrt.CurrentTaskID()
		for i, o := range ops {
			var dlAbs int64
			switch o.cfg {
			case "none":
				conn.SetWriteTimeout(0)
				conn.SetWriteDeadline(time.Time{})
			case "timeout":
				conn.SetWriteDeadline(time.Time{})
				conn.SetWriteTimeout(o.d)
			case "deadline":
				dlAbs = simrt.UnixNano() + int64(o.d)
				conn.SetWriteDeadline(time.Unix(0, dlAbs))
			}
			data := streamBytes(stream, submitted, o.n)
			t0 := simrt.NowNanos()
			curOp, curInvokeNs = i, t0
			var err error
			if o.kind == "Write" {
				submitted += o.n
				writerIn = simrt.Step()
				var k int
				k, err = conn.Write(data)
				if err == nil && k != o.n {
					e.Fail("write-count", "write-count", "Write(%d) returned %d, nil", o.n, k)
				}
			} else {
				switch {
				case o.n >= 80 && !localClose && e.Chance(1, 4):
					// (not together with a concurrent Close: Close releases the output buffer under a
					// writer that is between Append's activity check and its buffer update - the
					// documented unsynchronised buffer, DESIGN.md 6.5)
					// the payload in 33-80 pieces, each a node of its own (one flush over many nodes)
					pieces := e.Pick(33, 40, 64, 65, 80)
					off := 0
					for k := 0; k < pieces; k++ {
						m := (o.n - off) / (pieces - k)
						lb := NewLinkBuffer()
						buf, _ := lb.Malloc(m)
						copy(buf, data[off:off+m])
						off += m
						conn.Append(lb)
					}
				case o.n > 4096 && e.Bool():
					conn.WriteBinary(data)
				default:
					buf, _ := conn.Malloc(o.n)
					copy(buf, data)
				}
				submitted += o.n
				writerIn = simrt.Step()
				err = conn.Flush()
			}
			ret := simrt.Step()
			writerIvals = append(writerIvals, ival{writerIn, ret})
			writerIn = -1
			curOp = -1
			t1 := simrt.NowNanos()
			accepted := int(vsys.FDs[conn.fd].Written)
			if conn.fd >= vsys.MaxFD || !vsys.FDs[conn.fd].Open {
				accepted = -1
			}
			e.Rec("flush-return", i, accepted, errName(err))
			switch {
			case err == nil:
				if accepted >= 0 && accepted < submitted {
					e.Fail("nil-means-accepted", "nil-before-accepted/"+o.kind, "op %d %s returned nil but the kernel has accepted only %d of the %d bytes submitted so far", i, o.kind, accepted, submitted)
				}
			case isErr(err, ErrWriteTimeout):
				allNil = false
				lastTimeout = true
				if o.cfg == "none" {
					e.Fail("timeout-unconfigured", "timeout/unconfigured", "op %d %s returned ErrWriteTimeout with no timeout configured", i, o.kind)
				}
				if o.cfg == "timeout" && t1 < t0+int64(o.d) {
					e.Fail("timeout-early", "timeout/early", "op %d %s timed out at +%dus, configured %dus", i, o.kind, (t1-t0)/1000, int64(o.d)/1000)
				}
				if o.cfg == "deadline" && simrt.UnixNano() < dlAbs {
					e.Fail("timeout-early", "timeout/early", "op %d %s timed out %dus before its deadline", i, o.kind, (dlAbs-simrt.UnixNano())/1000)
				}
			case isErr(err, ErrConnClosed):
				allNil = false
				if closeSeq < 0 && !peerClosed {
					e.Fail("closed-without-close", "closed/no-close", "op %d %s returned ErrConnClosed but neither side closed", i, o.kind)
				}
			case isErr(err, ErrConcurrentAccess):
				allNil = false
				if !second {
					e.Fail("concurrent-without-concurrency", "concurrent/alone", "op %d %s returned ErrConcurrentAccess but no other flush exists", i, o.kind)
				}
			default:
				allNil = false
				// a socket error (EPIPE, ECONNRESET) needs a closed peer
				if !peerClosed && closeSeq < 0 {
					e.Fail("unexpected-error", "error/"+o.kind, "op %d %s returned %v although nobody closed", i, o.kind, err)
				}
			}
			if err != nil && !isErr(err, ErrWriteTimeout) && !isErr(err, ErrConcurrentAccess) {
				break
			}
			if err != nil {
				// after a timeout the unsent tail stays queued; stop submitting (a later Flush would
				// race with the poller's own sending, which netpoll documents)
				break
			}
		}
		writerDone = true
	})

	secondErr := false
	if second {
		simrt.GoNamed("second", false, func() {
			for k := 0; k < 1+e.Intn(3); k++ {
				if e.Bool() {
					simrt.Sleep(int64(e.Pick(1, 2, 10)) * int64(time.Millisecond) / 2)
				}
				inv := simrt.Step()
				wasIn := writerIn >= 0
				err := conn.Flush()
				ret := simrt.Step()
				if err != nil && !isErr(err, ErrConcurrentAccess) {
					secondErr = true
				}
				if isErr(err, ErrConcurrentAccess) {
					overl := wasIn || writerIn >= 0
					for _, iv := range writerIvals {
						if iv.inv <= ret && iv.ret >= inv {
							overl = true
						}
					}
					if !overl {
						e.Fail("concurrent-needs-overlap", "concurrent/no-overlap", "a Flush at steps %d..%d was rejected with ErrConcurrentAccess but no other flush was in progress then", inv, ret)
					}
				}
			}
		})
	}

	// ---- phase 1
	simrt.WaitQuiescent(true)
	e.nonTriv = submitted > sndbuf/2
	if !writerDone && curOp >= 0 && !writerT.Exited() {
		o := ops[curOp]
		why := ""
		switch {
		case o.cfg != "none":
			why = fmt.Sprintf("a write %s of %v was set at +%dus and every timer has fired (now +%dus)", o.cfg, o.d, curInvokeNs/1000, simrt.NowNanos()/1000)
		case !conn.IsActive():
			why = "the connection is closed"
		case peerMode != 2 && !peerClosed:
			why = "the peer keeps draining and the poller is idle"
		case peerClosed:
			why = "the peer closed"
		}
		if why != "" {
			e.Fail("flusher-stuck", "stuck/"+o.kind+"/"+o.cfg, "writer blocked in op %d %s(%d) at quiescence although %s; tasks=%v", curOp, o.kind, o.n, why, simrt.TaskStates())
		}
	}
	// ---- phase 2: the peer drains everything
	phase2 = true
	simrt.WaitQuiescent(true)
	if !writerDone && !writerT.Exited() && conn.IsActive() && !peerClosed {
		e.Fail("flusher-stuck", "stuck-after-drain", "writer still blocked after the peer drained everything; tasks=%v", simrt.TaskStates())
	}
	// stream integrity: what the peer got is a prefix of what was submitted; everything if all nil
	want := streamBytes(stream, 0, submitted)
	// (C04 covers a connection up to its first reported write error: after ErrWriteTimeout the
	// unsent tail is shared with the poller and netpoll documents that it must not be flushed again)
	if !allNil || secondErr {
		// nothing to check
	} else if len(got) > len(want) || !bytes.Equal(got, want[:len(got)]) {
		e.FailP("C04", "stream-intact", "flush-stream-corrupt", "the peer received %d bytes that are not a prefix of the %d submitted (first difference at %d)", len(got), submitted, firstDiff(got, want))
	} else if allNil && writerDone && !peerClosed && closeSeq < 0 && len(got) != submitted {
		e.Fail("nil-means-accepted", "bytes-missing-after-nil", "every flush returned nil, %d bytes were submitted, the peer drained everything and has only %d", submitted, len(got))
	}
	// ---- phase 3: a flush that timed out, everything at rest (the peer has drained, the poller is
	// idle), and the user tries again with more than the socket takes at once. "nil only after every
	// submitted byte has been accepted" holds for that Flush as for any other.
	if lastTimeout && writerDone && conn.IsActive() && !peerClosed && closeSeq < 0 && !second && e.Chance(2, 3) {
		retryDone := false
		var retryErr error
		n := e.Pick(2000, 20000, 40000, 100000)
		simrt.GoNamed("retrier", false, func() {
			conn.SetWriteDeadline(time.Time{})
			conn.SetWriteTimeout(0)
			if buf, err := conn.Malloc(n); err == nil {
				copy(buf, streamBytes(stream, submitted, n))
				submitted += n
			}
			retryErr = conn.Flush()
			accepted := int(vsys.FDs[conn.fd].Written)
			if retryErr == nil && accepted < submitted {
				e.Fail("nil-means-accepted", "nil-before-accepted/retry-after-timeout", "a Flush after an earlier one had timed out (everything at rest in between) returned nil but the kernel has accepted only %d of the %d bytes submitted so far", accepted, submitted)
			}
			retryDone = true
		})
		simrt.WaitQuiescent(true)
		simrt.Probe("flush_retried_after_timeout")
		if !retryDone {
			e.Fail("flusher-stuck", "stuck/retry-after-timeout", "a Flush issued after an earlier one had timed out is still blocked although the peer keeps draining and no timeout is set; tasks=%v", simrt.TaskStates())
		} else if retryErr == nil && len(got) < submitted {
			e.Fail("nil-means-accepted", "bytes-missing-after-nil/retry-after-timeout", "the retried Flush returned nil, %d bytes were submitted in total, the peer drained everything and has only %d", submitted, len(got))
		}
	}
	pollerSent := 0
	for _, ev := range vsys.Events {
		if ev.Name == "sendmsg" && ev.N > 0 && ev.Task != wtask {
			pollerSent++
		}
	}
	if pollerSent > 0 {
		simrt.Probe("flush_completed_through_poller")
	}
	conn.Close()
	simrt.WaitQuiescent(true)
	if !writerDone && !writerT.Exited() {
		e.Fail("flusher-stuck", "stuck-after-close", "writer still blocked after local Close; tasks=%v", simrt.TaskStates())
	}
	if !peerClosed {
		vsys.HClose(peer)
	}
	simrt.WaitQuiescent(true)
	e.State = fmt.Sprintf("%d/%d/%d/%v", submitted, len(got), pollerSent, allNil)
	e.Teardown()
	CheckLedger(e)
}

// ---------------------------------------------------------------------------------------------

func runC04(e *Env) {
	faults := e.Chance(2, 3)
	e.Setup(1+e.Intn(2), faults)
	LinkBufferCap = e.Pick(4096, 4096, 1024, 256)
	const stream = 4
	// two netpoll connections over one socket pair
	a, b := vsys.HSocketpair()
	sndbuf := e.Pick(0, 4096, 16384)
	if sndbuf > 0 {
		vsys.HSetBuf(a, sndbuf, sndbuf)
		vsys.HSetBuf(b, sndbuf, sndbuf)
	}
	vsys.Adopt(a)
	vsys.Adopt(b)
	ca, err := NewFDConnection(a)
	if err != nil {
		panic("harness: " + err.Error())
	}
	sender := ca.(*connection)
	useHandler := e.Chance(1, 3)
	var recv *connection
	received := 0
	recvDone := false
	sawEOF := false
	var recvErr error
	handlerCalls := 0
	cb, err := NewFDConnection(b)
	if err != nil {
		panic("harness: " + err.Error())
	}
	recv = cb.(*connection)

	total := e.Pick(1, 10, 300, 5000, 20000, 70000)
	senderCloses := e.Chance(2, 3)
	e.Summary = fmt.Sprintf("total=%d sndbuf=%d cap=%d handler=%v senderCloses=%v faults=%v", total, sndbuf, LinkBufferCap, useHandler, senderCloses, faults)

	// ---- sender
	sent := 0
	sendErr := false
	sendDone := false
	acceptedAtEnd := int64(-1)
	recvReady := false
	simrt.GoNamed("sender", false, func() {
		// documented: on the client side OnRequest must be set before data is transmitted
		simrt.WaitUntil("receiver set up", func() bool { return recvReady })
		for sent < total {
			n := 1 + e.Intn(1+e.Pick(1, 20, 300, 5000, 9000))
			if n > total-sent {
				n = total - sent
			}
			d := streamBytes(stream, sent, n)
			var err error
			switch e.Intn(8) {
			case 7:
				// one flush over many nodes (more than the poller's or the flusher's vector holds at once):
				// the frame handed over in 33-80 pieces, each a buffer of its own
				pieces := e.Pick(33, 40, 64, 65, 80)
				off := 0
				for k := 0; k < pieces && off < n; k++ {
					m := (n - off) / (pieces - k)
					if m == 0 {
						m = 1
					}
					lb := NewLinkBuffer()
					buf, _ := lb.Malloc(m)
					copy(buf, d[off:off+m])
					off += m
					if e.Chance(1, 4) {
						lb.Flush()
					}
					sender.Append(lb)
				}
				if off < n {
					sender.WriteBinary(d[off:])
				}
				err = sender.Flush()
			case 0:
				_, err = sender.Write(d)
			case 1:
				buf, _ := sender.Malloc(n)
				copy(buf, d)
				err = sender.Flush()
			case 2:
				sender.WriteBinary(d)
				err = sender.Flush()
			case 3:
				sender.WriteString(string(d))
				err = sender.Flush()
			case 4:
				for _, c := range d[:min(n, 8)] {
					sender.WriteByte(c)
				}
				if n > 8 {
					sender.WriteBinary(d[8:])
				}
				err = sender.Flush()
			case 5:
				// Malloc the frame, insert the middle part with WriteDirect
				if n >= 3 && e.Bool() {
					// the head through a small copying write, the tail malloc'ed, the middle spliced in
					h, t := n/3, n/3
					if h > 200 {
						h = 200
					}
					mid := n - h - t
					if e.Bool() {
						sender.WriteString(string(d[:h]))
					} else {
						sender.WriteBinary(d[:h])
					}
					buf, _ := sender.Malloc(t)
					copy(buf, d[h+mid:])
					sender.WriteDirect(append([]byte(nil), d[h:h+mid]...), t)
				} else if n >= 3 {
					h, t := n/3, n/3
					mid := n - h - t
					buf, _ := sender.Malloc(h + t)
					copy(buf[:h], d[:h])
					copy(buf[h:], d[h+mid:])
					sender.WriteDirect(append([]byte(nil), d[h:h+mid]...), t)
				} else {
					sender.WriteBinary(d)
				}
				err = sender.Flush()
			case 6:
				lb := NewLinkBuffer()
				if e.Bool() {
					buf, _ := lb.Malloc(n)
					copy(buf, d)
				} else {
					// a producer that only used the copying writers, in small pieces
					for off := 0; off < n; {
						m := 1 + e.Intn(300)
						if m > n-off {
							m = n - off
						}
						switch e.Intn(3) {
						case 0:
							lb.WriteBinary(d[off : off+m])
						case 1:
							lb.WriteString(string(d[off : off+m]))
						case 2:
							lb.WriteByte(d[off])
							m = 1
						}
						off += m
					}
				}
				if e.Bool() {
					lb.Flush() // a producer may hand over a buffer it has already submitted
				}
				sender.Append(lb)
				err = sender.Flush()
			}
			if err != nil {
				sendErr = true
				break
			}
			sent += n
			if e.Chance(1, 6) {
				simrt.Sleep(int64(e.Pick(1, 5)) * int64(time.Millisecond) / 2)
			}
		}
		acceptedAtEnd = vsysWritten(a)
		if senderCloses {
			sender.Close()
		}
		sendDone = true
	})

	// ---- receiver
	consume := func(p []byte, what string) bool {
		if bad := checkStream(stream, received, p); bad >= 0 {
			e.Fail("stream-intact", "content/"+what, "receiver %s: byte %d of a %d byte result differs from stream position %d", what, bad, len(p), received+bad)
			return false
		}
		received += len(p)
		return true
	}
	if useHandler {
		recv.SetOnRequest(func(ctx context.Context, c Connection) error {
			handlerCalls++
			rd := c.Reader()
			l := rd.Len()
			if l == 0 {
				return nil
			}
			k := l
			if e.Bool() {
				k = 1 + e.Intn(l)
			}
			p, err := rd.Next(k)
			if err != nil {
				e.Fail("handler-read", "handler-next-error", "Next(%d) with Len()=%d inside the handler: %v", k, l, err)
				return nil
			}
			consume(p, "handler")
			rd.Release()
			return nil
		})
	} else {
		simrt.GoNamed("receiver", false, func() {
			defer func() { recvDone = true }()
			for {
				n := 1 + e.Intn(1+e.Pick(1, 10, 200, 3000, 9000))
				var p []byte
				var err error
				switch e.Intn(8) {
				case 0:
					p, err = recv.Next(n)
				case 1:
					p, err = recv.Peek(n)
					if err == nil {
						if bad := checkStream(stream, received, p); bad >= 0 {
							e.Fail("stream-intact", "content/Peek", "Peek: byte %d differs from stream position %d", bad, received+bad)
							return
						}
						p, err = nil, recv.Skip(n)
						if err == nil {
							received += n
						}
					}
				case 2:
					p, err = recv.ReadBinary(n)
				case 3:
					var s string
					s, err = recv.ReadString(n)
					p = []byte(s)
				case 4:
					var c byte
					c, err = recv.ReadByte()
					if err == nil {
						p = []byte{c}
					}
				case 5:
					var r Reader
					r, err = recv.Slice(n)
					if err == nil {
						q, _ := r.Next(r.Len())
						p = append([]byte(nil), q...)
						r.Release()
					}
				case 6:
					buf := make([]byte, n)
					var k int
					k, err = recv.Read(buf)
					p = buf[:k]
				case 7:
					err = recv.Skip(n)
					if err == nil {
						received += n
					}
				}
				if err != nil {
					recvErr = err
					if isErr(err, ErrEOF) {
						sawEOF = true
					}
					// what is still buffered stays readable after the peer closed
					if l := recv.Len(); l > 0 {
						q, err2 := recv.Next(l)
						if err2 != nil {
							e.Fail("buffered-readable-after-eof", "buffered-unreadable", "after %v, %d bytes are buffered but Next(%d) fails: %v", err, l, l, err2)
							return
						}
						consume(q, "drain-after-eof")
					}
					return
				}
				if !consume(p, "read") {
					return
				}
				if e.Chance(1, 3) {
					recv.Release()
				}
				if e.Chance(1, 8) {
					simrt.Sleep(int64(e.Pick(1, 5)) * int64(time.Millisecond) / 2)
				}
			}
		})
	}

	recvReady = true
	simrt.WaitQuiescent(true)
	e.nonTriv = total > 300
	if !sendDone {
		e.Fail("sender-stuck", "sender-stuck", "the sender is still blocked at quiescence although the receiver keeps reading; tasks=%v", simrt.TaskStates())
	}
	if useHandler {
		// the handler protocol must have consumed everything that was sent
		if !sendErr && received != sent {
			e.Fail("all-bytes-delivered", "handler-missing-bytes", "sender flushed %d bytes without error; the handler was offered %d (invocations %d, buffered %d)", sent, received, handlerCalls, recv.inputBuffer.Len())
		}
	} else if sendDone && !sendErr {
		if senderCloses {
			if !recvDone {
				e.Fail("receiver-stuck", "receiver-stuck-after-close", "the sender closed but the receiver is still blocked; tasks=%v", simrt.TaskStates())
			} else if !sawEOF {
				e.Fail("eof-after-data", "no-eof", "the sender closed; the receiver ended with %v instead of ErrEOF", recvErr)
			} else if received != sent {
				e.Fail("all-bytes-before-eof", "bytes-missing-at-eof", "sender flushed %d bytes without error and closed; the receiver saw end-of-stream after %d", sent, received)
			}
		} else if recvDone {
			e.Fail("eof-without-close", "spurious-end", "nobody closed but the receiver ended with %v after %d of %d bytes", recvErr, received, sent)
		} else if received+recv.inputBuffer.Len() != sent {
			// the receiver waits for more than is left: everything sent must be consumed or buffered
			e.Fail("all-bytes-delivered", "bytes-missing", "sender flushed %d bytes without error; the receiver consumed %d and has %d buffered", sent, received, recv.inputBuffer.Len())
		}
	}
	// conservation at the kernel boundary
	if !sendErr && sendDone {
		if w := int(acceptedAtEnd); w >= 0 && w != sent {
			e.Fail("kernel-accepted-all", "kernel-count", "sender flushed %d bytes without error but the kernel accepted %d on its descriptor", sent, w)
		}
	}
	recv.Close()
	sender.Close()
	simrt.WaitQuiescent(true)
	e.State = fmt.Sprintf("%d/%d/%v/%v", sent, received, sawEOF, useHandler)
	e.Teardown()
	CheckLedger(e)
}

func vsysWritten(fd int) int64 {
	if fd < 0 || fd >= vsys.MaxFD {
		return -1
	}
	if !vsys.FDs[fd].Open {
		return -1
	}
	return vsys.FDs[fd].Written
}

var _ = syscall.EAGAIN
