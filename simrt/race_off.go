//go:build go1.22 && !race

package simrt

const RaceBuild = false

func RaceDisable() {}
func RaceEnable()  {}
