//go:build go1.22 && linux && amd64

package vsys

// Virtual TCP (the only part of "back-end B" that exists): AF_INET/AF_INET6 stream sockets that
// netpoll creates are backed by real AF_UNIX sockets, and the asynchronous connect of TCP
// (EINPROGRESS, completion/refusal/silence after a virtual delay, SO_ERROR, readiness through
// epoll) is emulated on top of them. Everything after the connect is the real kernel again.
// This is a STUB of the TCP handshake, reported as such in the evidence.

import (
	"fmt"
	"syscall"
	"unsafe"

	"verif.local/simrt"
)

const (
	VAccept  = 0 // the listener accepts: the connect completes after Delay
	VRefuse  = 1 // connection refused after Delay
	VDrop    = 2 // SYNs are dropped silently: the connect never completes
	VResetOK = 3 // accepted after Delay, then the peer closes at once
)

type VListener struct {
	Port    int
	Mode    int
	DelayNs int64
	Path    string
	LFD     int
}

type vconn struct {
	family    int
	pending   bool
	connected bool
	soerr     syscall.Errno
	regEpfd   int
	regEvent  [12]byte
	hasReg    bool
	remote    syscall.Sockaddr
	localPort int
	gen       int
}

var (
	vlisteners []*VListener
	vconns     [MaxFD]*vconn
	vgen       int
)

func vnetReset() {
	for _, l := range vlisteners {
		if l.LFD >= 0 {
			syscall.Close(l.LFD)
			if l.LFD < MaxFD {
				FDs[l.LFD] = FDInfo{}
			}
		}
		syscall.Unlink(l.Path)
	}
	vlisteners = nil
	for i := range vconns {
		vconns[i] = nil
	}
}

// VListen registers a virtual TCP listener on port with the given behaviour.
func VListen(port, mode int, delayNs int64) *VListener {
	path := fmt.Sprintf("/tmp/simnp-%d-vtcp-%d.sock", syscall.Getpid(), port)
	l := &VListener{Port: port, Mode: mode, DelayNs: delayNs, Path: path, LFD: -1}
	if mode == VAccept || mode == VResetOK {
		fd, err := HListenUnix(path, 64)
		if err != nil {
			panic("vsys.VListen: " + err.Error())
		}
		l.LFD = fd
	}
	vlisteners = append(vlisteners, l)
	return l
}

func findListener(port int) *VListener {
	for _, l := range vlisteners {
		if l.Port == port {
			return l
		}
	}
	return nil
}

func isInet(domain int) bool { return domain == syscall.AF_INET || domain == syscall.AF_INET6 }

// vsocket backs an inet stream socket by a unix one.
func vsocket(domain, typ, proto int) (int, error) {
	fd, err := syscall.Socket(syscall.AF_UNIX, typ, 0)
	if err != nil {
		return fd, err
	}
	if fd < MaxFD {
		vgen++
		vconns[fd] = &vconn{family: domain, localPort: 40000 + fd, gen: vgen}
	}
	return fd, nil
}

func portOf(sa syscall.Sockaddr) int {
	switch a := sa.(type) {
	case *syscall.SockaddrInet4:
		return a.Port
	case *syscall.SockaddrInet6:
		return a.Port
	}
	return -1
}

// vconnect starts the emulated asynchronous connect.
//
//go:norace
func vconnect(fd int, vc *vconn, sa syscall.Sockaddr) error {
	if vc.connected {
		return syscall.EISCONN
	}
	if vc.pending {
		return syscall.EALREADY
	}
	vc.remote = sa
	vc.pending = true
	l := findListener(portOf(sa))
	mode, delay := VRefuse, int64(0)
	if l != nil {
		mode, delay = l.Mode, l.DelayNs
	}
	gen := vc.gen
	if mode != VDrop {
		simrt.AddTimer(delay, func() { vcomplete(fd, gen, l, mode) })
	}
	ev("vtcp.connect", fd, mode, syscall.EINPROGRESS, int(delay/1000))
	return syscall.EINPROGRESS
}

// vcomplete runs on the scheduler goroutine when the virtual handshake finishes.
//
//go:nocheckptr
//go:norace
func vcomplete(fd, gen int, l *VListener, mode int) {
	vc := vconns[fd]
	if vc == nil || vc.gen != gen || !vc.pending {
		return // the socket was closed meanwhile (dial timed out)
	}
	vc.pending = false
	switch mode {
	case VAccept, VResetOK:
		if err := syscall.Connect(fd, &syscall.SockaddrUnix{Name: l.Path}); err != nil && err != syscall.EINPROGRESS {
			vc.soerr = syscall.ECONNREFUSED
			vhup(fd)
		} else {
			vc.connected = true
			simrt.CountFault("vtcp_connect_completed")
		}
	default:
		vc.soerr = syscall.ECONNREFUSED
		vhup(fd)
		simrt.CountFault("vtcp_connect_refused")
	}
	if vc.hasReg {
		// the registration netpoll asked for takes effect now: edge-triggered epoll reports the
		// state of the socket as it is at this moment
		vc.hasReg = false
		syscall.RawSyscall6(syscall.SYS_EPOLL_CTL, uintptr(vc.regEpfd), syscall.EPOLL_CTL_ADD, uintptr(fd), uintptr(unsafe.Pointer(&vc.regEvent[0])), 0, 0)
		if fd < MaxFD {
			FDs[fd].EpollIn = vc.regEpfd
		}
	}
}

// vhup turns the descriptor into a socket whose peer has gone away (what a refused TCP connect
// looks like to epoll: HUP/ERR), keeping the descriptor number.
func vhup(fd int) {
	p, err := syscall.Socketpair(syscall.AF_UNIX, syscall.SOCK_STREAM|syscall.SOCK_NONBLOCK|syscall.SOCK_CLOEXEC, 0)
	if err != nil {
		return
	}
	syscall.Close(p[1])
	syscall.Dup3(p[0], fd, syscall.O_CLOEXEC)
	syscall.Close(p[0])
}

// VAcceptPeer accepts the real connection behind a completed virtual connect.
func VAcceptPeer(l *VListener) (int, error) { return HAccept(l.LFD) }

func vAddr(vc *vconn, local bool) syscall.Sockaddr {
	if local {
		if vc.family == syscall.AF_INET6 {
			a := &syscall.SockaddrInet6{Port: vc.localPort}
			a.Addr[15] = 1
			return a
		}
		return &syscall.SockaddrInet4{Port: vc.localPort, Addr: [4]byte{127, 0, 0, 1}}
	}
	return vc.remote
}
