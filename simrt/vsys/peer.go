//go:build go1.22 && linux && amd64

package vsys

import (
	"syscall"

	"verif.local/simrt"
)

// Harness-side ("the peer", "the environment") operations. They are scheduling points like the
// netpoll-side calls but are never subject to fault injection, and descriptors they create are
// harness-owned.

func HSocketpair() (a, b int) {
	simrt.Yield("peer.socketpair", 1)
	fds, err := syscall.Socketpair(syscall.AF_UNIX, syscall.SOCK_STREAM|syscall.SOCK_NONBLOCK|syscall.SOCK_CLOEXEC, 0)
	if err != nil {
		panic("vsys.HSocketpair: " + err.Error())
	}
	opened(fds[0], OwnHarness, "socketpair")
	opened(fds[1], OwnHarness, "socketpair")
	return fds[0], fds[1]
}

// HSetBuf sets SO_SNDBUF / SO_RCVBUF (0 = leave alone).
func HSetBuf(fd, snd, rcv int) {
	if snd > 0 {
		syscall.SetsockoptInt(fd, syscall.SOL_SOCKET, syscall.SO_SNDBUF, snd)
	}
	if rcv > 0 {
		syscall.SetsockoptInt(fd, syscall.SOL_SOCKET, syscall.SO_RCVBUF, rcv)
	}
}

func HWrite(fd int, p []byte) (int, error) {
	simrt.Yield("peer.write", 1)
	n, err := syscall.Write(fd, p)
	if n > 0 {
		account(fd, n, 0)
	}
	ev("peer.write", fd, n, errnoOf(err), len(p))
	return n, err
}

func HRead(fd int, p []byte) (int, error) {
	simrt.Yield("peer.read", 1)
	n, err := syscall.Read(fd, p)
	if n > 0 {
		account(fd, 0, n)
	}
	ev("peer.read", fd, n, errnoOf(err), len(p))
	return n, err
}

func HShutdown(fd, how int) error {
	simrt.Yield("peer.shutdown", 1)
	err := syscall.Shutdown(fd, how)
	ev("peer.shutdown", fd, how, errnoOf(err), 0)
	return err
}

//go:norace
func HClose(fd int) error {
	simrt.Yield("peer.close", 1)
	err := syscall.Close(fd)
	if fd >= 0 && fd < MaxFD {
		if FDs[fd].Owner == OwnNetpoll && FDs[fd].Open {
			NetpollOpen--
		}
		FDs[fd] = FDInfo{}
		vconns[fd] = nil
		for i := range FDs {
			if FDs[i].EpollIn == fd {
				FDs[i].EpollIn = 0
			}
		}
	}
	ev("peer.close", fd, 0, errnoOf(err), 0)
	return err
}

// HListenUnix creates a non-blocking AF_UNIX stream listener bound to path.
func HListenUnix(path string, backlog int) (int, error) {
	simrt.Yield("peer.listen", 1)
	fd, err := syscall.Socket(syscall.AF_UNIX, syscall.SOCK_STREAM|syscall.SOCK_NONBLOCK|syscall.SOCK_CLOEXEC, 0)
	if err != nil {
		return -1, err
	}
	syscall.Unlink(path)
	if err = syscall.Bind(fd, &syscall.SockaddrUnix{Name: path}); err != nil {
		syscall.Close(fd)
		return -1, err
	}
	if err = syscall.Listen(fd, backlog); err != nil {
		syscall.Close(fd)
		return -1, err
	}
	opened(fd, OwnHarness, "listener")
	return fd, nil
}

// HConnectUnix connects a new non-blocking AF_UNIX stream socket to path.
func HConnectUnix(path string) (int, error) {
	simrt.Yield("peer.connect", 1)
	fd, err := syscall.Socket(syscall.AF_UNIX, syscall.SOCK_STREAM|syscall.SOCK_NONBLOCK|syscall.SOCK_CLOEXEC, 0)
	if err != nil {
		return -1, err
	}
	if err = syscall.Connect(fd, &syscall.SockaddrUnix{Name: path}); err != nil {
		syscall.Close(fd)
		ev("peer.connect", -1, 0, errnoOf(err), 0)
		return -1, err
	}
	opened(fd, OwnHarness, "peer-client")
	ev("peer.connect", fd, 0, 0, 0)
	return fd, nil
}

func HAccept(lfd int) (int, error) {
	simrt.Yield("peer.accept", 1)
	fd, _, err := syscall.Accept4(lfd, syscall.SOCK_NONBLOCK|syscall.SOCK_CLOEXEC)
	if err != nil {
		return -1, err
	}
	opened(fd, OwnHarness, "peer-accepted")
	return fd, nil
}

// HReadable reports whether a read on fd would not block (data, EOF or error pending).
func HReadable(fd int) bool { return Readable(fd) }

// HWritable reports whether a write on fd would not block.
func HWritable(fd int) bool {
	p := pollfd{fd: int32(fd), events: 4 /* POLLOUT */}
	return pollNow(&p)
}

// OpenDescriptors lists the descriptors of this process (via /proc/self/fd), for the census.
func OpenDescriptors() []int {
	d, err := syscall.Open("/proc/self/fd", syscall.O_RDONLY|syscall.O_DIRECTORY|syscall.O_CLOEXEC, 0)
	if err != nil {
		return nil
	}
	defer syscall.Close(d)
	var out []int
	buf := make([]byte, 8192)
	for {
		n, err := syscall.ReadDirent(d, buf)
		if n <= 0 || err != nil {
			break
		}
		names := make([]string, 0, 64)
		_, _, names = syscall.ParseDirent(buf[:n], -1, names)
		for _, nm := range names {
			v := 0
			ok := len(nm) > 0
			for _, c := range nm {
				if c < '0' || c > '9' {
					ok = false
					break
				}
				v = v*10 + int(c-'0')
			}
			if ok && v != d {
				out = append(out, v)
			}
		}
	}
	return out
}

// Reconcile drops ledger entries of netpoll-owned descriptors that were closed outside vsys by
// their real owner (an os.File inside the standard library).
func Reconcile() {
	for fd := range FDs {
		if FDs[fd].Open && FDs[fd].Owner == OwnNetpoll {
			var st syscall.Stat_t
			if err := syscall.Fstat(fd, &st); err == syscall.EBADF {
				FDs[fd] = FDInfo{}
				NetpollOpen--
			}
		}
	}
}
