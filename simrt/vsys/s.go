//go:build go1.22 && linux && amd64

// Package vsys is the system-call layer of the simulated tree (back-end A: the real Linux
// kernel, AF_UNIX stream sockets, epoll, eventfd). Every entry is a scheduling point, a fault
// decision, the real operation, and a ledger update. No call ever blocks in the kernel:
// descriptors are non-blocking and a blocking epoll_wait waits in the scheduler on poll(2).
package vsys

import (
	"runtime"
	"syscall"
	"unsafe"

	"verif.local/simrt"
)

// ---------------------------------------------------------------------------------------------
// knobs (set per run by the harness; rates are x/256 per eligible call)

type Knobs struct {
	ShortWrite   int
	SendEAGAIN   int
	ShortRead    int
	ErrQueueEAGAIN bool // recvmsg(MSG_ERRQUEUE) answers EAGAIN, as a TCP socket with an empty error queue does
	RecvEAGAIN   int // a readv on a readable socket whose peer is still there reports EAGAIN once (spurious readiness)
	ReadEINTR    int
	EpollEINTR   int
	EpollClip    int
	AcceptEAGAIN int
	// EMFILE on accept while EMFILEActive is set by the scenario
	EMFILEActive    bool
	SocketEMFILE    bool
	EpollCreateFail bool
	// dedicated configurations
	EpollCtlAddFail int
	EpollCtlAddSkip int // that many EPOLL_CTL_ADD calls pass before EpollCtlAddFail applies
	SetsockoptFail  int
	EventfdFail     int
	// open a harness-owned trip-wire on the number netpoll just closed
	ReuseAdversary bool
}

var K Knobs

// ---------------------------------------------------------------------------------------------
// descriptor ledger

const MaxFD = 4096

const (
	OwnNone    = 0
	OwnNetpoll = 1
	OwnHarness = 2
)

type FDInfo struct {
	Open     bool
	Owner    uint8
	Kind     string
	Closes   int   // closes issued by netpoll on this number during the current ownership
	Written  int64 // bytes the kernel accepted on this descriptor
	Read     int64 // bytes the kernel delivered from this descriptor
	EpollIn  int   // epoll descriptor this one is registered in (0 = none)
	Tripwire bool
	EpollKey [8]byte // the user data of its registration (what epoll_wait hands back)
	Fetched  int     // events for this descriptor that epoll_wait has handed to netpoll so far
}

type Event struct {
	Step int
	Task int
	Name string
	FD   int
	N    int
	Err  syscall.Errno
	Arg  int
}

var (
	FDs         [MaxFD]FDInfo
	Events      []Event
	BadCloses   []Event // netpoll closed a number it does not own / that is not open
	tripwires   []int
	marker      = -1
	markerStat  syscall.Stat_t
	KeepEvents  = true
	NetpollOpen int // descriptors currently open and owned by netpoll
)

// Reset clears the ledger for a new run. Descriptors a previous run left open (a run that was
// capped or abandoned after a violation never reaches its clean-up) are closed first, so that no
// state leaks from one run into the next.
func Reset() {
	raiseNoFile()
	for fd := range FDs {
		if FDs[fd].Open && fd != marker {
			syscall.Close(fd)
		}
		FDs[fd] = FDInfo{}
	}
	for _, tw := range tripwires {
		syscall.Close(tw)
	}
	Events = Events[:0]
	EventsDropped = false
	BadCloses = nil
	for k := range epollKeys {
		delete(epollKeys, k)
	}
	tripwires = tripwires[:0]
	NetpollOpen = 0
	K = Knobs{}
	vnetReset()
	if marker < 0 {
		fd, err := syscall.Open("/dev/null", syscall.O_RDONLY|syscall.O_CLOEXEC, 0)
		if err != nil {
			panic(err)
		}
		// keep the marker out of the low numbers
		hi, err := fcntlDupfd(fd, 900)
		if err != nil {
			panic(err)
		}
		syscall.Close(fd)
		marker = hi
		syscall.Fstat(marker, &markerStat)
	}
}

var noFileRaised bool

func raiseNoFile() {
	if noFileRaised {
		return
	}
	noFileRaised = true
	var lim syscall.Rlimit
	if syscall.Getrlimit(syscall.RLIMIT_NOFILE, &lim) == nil && lim.Cur < lim.Max {
		lim.Cur = lim.Max
		if lim.Cur > 65536 {
			lim.Cur = 65536
		}
		syscall.Setrlimit(syscall.RLIMIT_NOFILE, &lim)
	}
}

func fcntlDupfd(fd, min int) (int, error) {
	r, _, e := syscall.Syscall(syscall.SYS_FCNTL, uintptr(fd), syscall.F_DUPFD_CLOEXEC, uintptr(min))
	if e != 0 {
		return -1, e
	}
	return int(r), nil
}

//go:norace
func ev(name string, fd, n int, err syscall.Errno, arg int) {
	if !KeepEvents || !simrt.InSim() {
		return
	}
	simrt.RaceDisable()
	if len(Events) < 250000 { // more than any scenario's step cap allows: oracles read this log and must see all of it
		Events = append(Events, Event{Step: simrt.Step(), Task: simrt.CurrentTaskID(), Name: name, FD: fd, N: n, Err: err, Arg: arg})
	} else {
		EventsDropped = true
	}
	simrt.RaceEnable()
}

//go:norace
func opened(fd int, owner uint8, kind string) {
	if fd < 0 || fd >= MaxFD {
		return
	}
	simrt.RaceDisable()
	if FDs[fd].Open && FDs[fd].Tripwire {
		// cannot happen: the kernel never hands out an open number
		panic("vsys: kernel returned a descriptor number the ledger believes open")
	}
	FDs[fd] = FDInfo{Open: true, Owner: owner, Kind: kind}
	if owner == OwnNetpoll {
		NetpollOpen++
	}
	simrt.RaceEnable()
}

// Adopt transfers a harness-owned descriptor to netpoll (NewFDConnection, listener duplicate).
//
//go:norace
func Adopt(fd int) {
	if fd < 0 || fd >= MaxFD {
		return
	}
	if !FDs[fd].Open {
		FDs[fd] = FDInfo{Open: true, Kind: "adopted"}
	}
	if FDs[fd].Owner != OwnNetpoll {
		NetpollOpen++
	}
	FDs[fd].Owner = OwnNetpoll
}

// Disown transfers a descriptor back to the harness (after Detach).
//
//go:norace
func Disown(fd int) {
	if fd < 0 || fd >= MaxFD || !FDs[fd].Open {
		return
	}
	if FDs[fd].Owner == OwnNetpoll {
		NetpollOpen--
	}
	FDs[fd].Owner = OwnHarness
}

// Track registers a descriptor the harness obtained outside vsys.
//
//go:norace
func Track(fd int, owner uint8, kind string) { opened(fd, owner, kind) }

// ---------------------------------------------------------------------------------------------
// netpoll-side entry points (the rewriter redirects syscall.X here)

//go:norace
func Close(fd int) error {
	simrt.Yield("sys.close", 1)
	if fd < 0 || fd >= MaxFD {
		return syscall.Close(fd)
	}
	simrt.RaceDisable()
	inf := &FDs[fd]
	bad := !inf.Open || inf.Owner != OwnNetpoll
	if simrt.InSim() && bad {
		e := Event{Step: simrt.Step(), Task: simrt.CurrentTaskID(), Name: "close", FD: fd}
		if inf.Open {
			e.Arg = int(inf.Owner)
		} else {
			e.Arg = -1
		}
		BadCloses = append(BadCloses, e)
		simrt.RaceEnable()
		ev("close!bad", fd, 0, syscall.EBADF, e.Arg)
		// do not let the stray close damage a descriptor somebody else owns
		if inf.Open {
			return nil
		}
		return syscall.EBADF
	}
	simrt.RaceEnable()
	err := syscall.Close(fd)
	simrt.RaceDisable()
	if inf.Owner == OwnNetpoll && inf.Open {
		NetpollOpen--
	}
	wasSim := simrt.InSim()
	*inf = FDInfo{}
	vconns[fd] = nil
	for i := range FDs { // the kernel drops epoll registrations of a closed descriptor
		if FDs[i].EpollIn == fd {
			FDs[i].EpollIn = 0
		}
	}
	simrt.RaceEnable()
	ev("close", fd, 0, errnoOf(err), 0)
	if wasSim && K.ReuseAdversary {
		if tw, e := syscall.Dup(marker); e == nil {
			if tw < MaxFD {
				FDs[tw] = FDInfo{Open: true, Owner: OwnHarness, Kind: "tripwire", Tripwire: true}
			}
			tripwires = append(tripwires, tw)
			simrt.CountFault("fd_reuse_tripwire")
		}
	}
	return err
}

// CheckTripwires verifies that every trip-wire is still the marker file and releases them.
// It returns the numbers found closed or replaced.
func CheckTripwires() (damaged []int) {
	for _, tw := range tripwires {
		var st syscall.Stat_t
		if err := syscall.Fstat(tw, &st); err != nil || st.Ino != markerStat.Ino || st.Dev != markerStat.Dev || st.Rdev != markerStat.Rdev {
			damaged = append(damaged, tw)
			if tw < MaxFD {
				FDs[tw] = FDInfo{}
			}
			continue
		}
		syscall.Close(tw)
		if tw < MaxFD {
			FDs[tw] = FDInfo{}
		}
	}
	tripwires = tripwires[:0]
	return damaged
}

func errnoOf(err error) syscall.Errno {
	if err == nil {
		return 0
	}
	if e, ok := err.(syscall.Errno); ok {
		return e
	}
	return syscall.EINVAL
}

//go:norace
func Read(fd int, p []byte) (int, error) {
	simrt.Yield("sys.read", 1)
	if simrt.FaultChance(K.ReadEINTR) {
		simrt.CountFault("read_eintr")
		ev("read", fd, 0, syscall.EINTR, 0)
		return -1, syscall.EINTR
	}
	q := p
	if len(p) > 1 && simrt.FaultChance(K.ShortRead) {
		q = p[:1+simrt.FaultIntn(len(p)-1, nil)]
	}
	n, err := syscall.Read(fd, q)
	if len(q) < len(p) && n == len(q) {
		simrt.CountFault("short_read")
	}
	account(fd, 0, n)
	ev("read", fd, n, errnoOf(err), len(p))
	return n, err
}

//go:norace
func Write(fd int, p []byte) (int, error) {
	simrt.Yield("sys.write", 1)
	q := p
	if len(p) > 1 && fdKind(fd) != "eventfd" {
		if simrt.FaultChance(K.SendEAGAIN) {
			simrt.CountFault("send_eagain")
			ev("write", fd, 0, syscall.EAGAIN, len(p))
			return -1, syscall.EAGAIN
		}
		if simrt.FaultChance(K.ShortWrite) {
			q = p[:1+simrt.FaultIntn(len(p)-1, nil)]
		}
	}
	n, err := syscall.Write(fd, q)
	if len(q) < len(p) && n == len(q) {
		simrt.CountFault("short_write")
	}
	account(fd, n, 0)
	ev("write", fd, n, errnoOf(err), len(p))
	return n, err
}

//go:norace
func fdKind(fd int) string {
	if fd < 0 || fd >= MaxFD {
		return ""
	}
	return FDs[fd].Kind
}

//go:norace
func account(fd, w, r int) {
	if fd < 0 || fd >= MaxFD {
		return
	}
	if w > 0 {
		FDs[fd].Written += int64(w)
	}
	if r > 0 {
		FDs[fd].Read += int64(r)
	}
}

//go:norace
func Accept(fd int) (int, syscall.Sockaddr, error) {
	simrt.Yield("sys.accept", 1)
	if K.EMFILEActive {
		simrt.CountFault("accept_emfile")
		ev("accept", fd, -1, syscall.EMFILE, 0)
		return -1, nil, syscall.EMFILE
	}
	if simrt.FaultChance(K.AcceptEAGAIN) {
		simrt.CountFault("accept_eagain")
		ev("accept", fd, -1, syscall.EAGAIN, 0)
		return -1, nil, syscall.EAGAIN
	}
	nfd, sa, err := syscall.Accept(fd)
	if err == nil {
		opened(nfd, OwnNetpoll, "accepted")
	}
	ev("accept", fd, nfd, errnoOf(err), 0)
	return nfd, sa, err
}

//go:norace
func Accept4(fd, flags int) (int, syscall.Sockaddr, error) {
	simrt.Yield("sys.accept4", 1)
	if K.EMFILEActive {
		simrt.CountFault("accept_emfile")
		return -1, nil, syscall.EMFILE
	}
	nfd, sa, err := syscall.Accept4(fd, flags)
	if err == nil {
		opened(nfd, OwnNetpoll, "accepted")
	}
	ev("accept", fd, nfd, errnoOf(err), 0)
	return nfd, sa, err
}

//go:norace
func Socket(domain, typ, proto int) (int, error) {
	simrt.Yield("sys.socket", 1)
	if K.SocketEMFILE {
		simrt.CountFault("socket_emfile")
		return -1, syscall.EMFILE
	}
	var fd int
	var err error
	if isInet(domain) && simrt.InSim() {
		fd, err = vsocket(domain, typ, proto)
	} else {
		fd, err = syscall.Socket(domain, typ, proto)
	}
	if err == nil {
		opened(fd, OwnNetpoll, "socket")
	}
	ev("socket", fd, domain, errnoOf(err), typ)
	return fd, err
}

//go:norace
func Socketpair(domain, typ, proto int) ([2]int, error) {
	simrt.Yield("sys.socketpair", 1)
	fds, err := syscall.Socketpair(domain, typ, proto)
	if err == nil {
		// GetSysFdPairs hands both ends to the caller: harness-owned until adopted
		opened(fds[0], OwnHarness, "socketpair")
		opened(fds[1], OwnHarness, "socketpair")
	}
	return fds, err
}

//go:norace
func Connect(fd int, sa syscall.Sockaddr) error {
	simrt.Yield("sys.connect", 1)
	if fd >= 0 && fd < MaxFD && vconns[fd] != nil {
		return vconnect(fd, vconns[fd], sa)
	}
	err := syscall.Connect(fd, sa)
	ev("connect", fd, 0, errnoOf(err), 0)
	return err
}

func Bind(fd int, sa syscall.Sockaddr) error {
	simrt.Yield("sys.bind", 1)
	return syscall.Bind(fd, sa)
}

func Listen(fd, n int) error {
	simrt.Yield("sys.listen", 1)
	return syscall.Listen(fd, n)
}

func SetNonblock(fd int, nb bool) error {
	simrt.Yield("sys.setnonblock", 1)
	return syscall.SetNonblock(fd, nb)
}

func CloseOnExec(fd int) { syscall.CloseOnExec(fd) }

//go:norace
func SetsockoptInt(fd, level, opt, value int) error {
	simrt.Yield("sys.setsockopt", 1)
	if simrt.FaultChance(K.SetsockoptFail) {
		simrt.CountFault("setsockopt_fail")
		ev("setsockopt", fd, 0, syscall.ENOBUFS, opt)
		return syscall.ENOBUFS
	}
	if fd >= 0 && fd < MaxFD && vconns[fd] != nil && (level == syscall.IPPROTO_TCP || level == syscall.IPPROTO_IPV6 || level == syscall.IPPROTO_IP) {
		return nil // TCP/IP level options of a virtual TCP socket
	}
	return syscall.SetsockoptInt(fd, level, opt, value)
}

func GetsockoptInt(fd, level, opt int) (int, error) {
	simrt.Yield("sys.getsockopt", 1)
	if fd >= 0 && fd < MaxFD && vconns[fd] != nil && level == syscall.SOL_SOCKET && opt == syscall.SO_ERROR {
		vc := vconns[fd]
		if vc.pending {
			return int(syscall.EINPROGRESS), nil
		}
		e := vc.soerr
		vc.soerr = 0
		return int(e), nil
	}
	return syscall.GetsockoptInt(fd, level, opt)
}

func Getsockname(fd int) (syscall.Sockaddr, error) {
	if fd >= 0 && fd < MaxFD && vconns[fd] != nil {
		return vAddr(vconns[fd], true), nil
	}
	return syscall.Getsockname(fd)
}

func Getpeername(fd int) (syscall.Sockaddr, error) {
	if fd >= 0 && fd < MaxFD && vconns[fd] != nil {
		if !vconns[fd].connected {
			return nil, syscall.ENOTCONN
		}
		return vAddr(vconns[fd], false), nil
	}
	return syscall.Getpeername(fd)
}

func Recvmsg(fd int, p, oob []byte, flags int) (int, int, int, syscall.Sockaddr, error) {
	simrt.Yield("sys.recvmsg", 1)
	if flags&syscall.MSG_ERRQUEUE != 0 && K.ErrQueueEAGAIN {
		// what a TCP socket answers when EPOLLERR was reported for a reset and its error queue is empty
		// (AF_UNIX sockets, which back every descriptor here, answer differently)
		simrt.CountFault("errqueue_eagain")
		ev("recvmsg", fd, -1, syscall.EAGAIN, flags)
		return 0, 0, 0, nil, syscall.EAGAIN
	}
	n, oobn, rf, from, err := syscall.Recvmsg(fd, p, oob, flags)
	ev("recvmsg", fd, n, errnoOf(err), flags)
	return n, oobn, rf, from, err
}

func Sendmsg(fd int, p, oob []byte, to syscall.Sockaddr, flags int) error {
	simrt.Yield("sys.sendmsg", 1)
	return syscall.Sendmsg(fd, p, oob, to, flags)
}

func Shutdown(fd, how int) error {
	simrt.Yield("sys.shutdown", 1)
	err := syscall.Shutdown(fd, how)
	ev("shutdown", fd, how, errnoOf(err), 0)
	return err
}

//go:norace
func Dup(fd int) (int, error) {
	simrt.Yield("sys.dup", 1)
	nfd, err := syscall.Dup(fd)
	if err == nil {
		opened(nfd, OwnNetpoll, "dup")
	}
	return nfd, err
}

// ---------------------------------------------------------------------------------------------
// raw entry points, decoded by trap number

type pollfd struct {
	fd      int32
	events  int16
	revents int16
}

// Readable reports whether poll(2) says the descriptor is readable (or dead) right now.
// Side-effect free; called by the scheduler to decide whether a poller can leave epoll_wait.
func Readable(fd int) bool {
	p := pollfd{fd: int32(fd), events: 1 /* POLLIN */}
	return pollNow(&p)
}

// dataAndPeerAlive: input is pending and the peer has neither closed nor shut down its sending side
// (never disturb the reads that drain a connection after a hang-up).
func dataAndPeerAlive(fd int) bool {
	p := pollfd{fd: int32(fd), events: 1 | 0x2000 /* POLLIN|POLLRDHUP */}
	for {
		r, _, e := syscall.Syscall(syscall.SYS_POLL, uintptr(unsafe.Pointer(&p)), 1, 0)
		if e == syscall.EINTR {
			continue
		}
		return e == 0 && r > 0 && p.revents&1 != 0 && p.revents&(0x2000|0x10|0x8) == 0
	}
}

func pollNow(p *pollfd) bool {
	for {
		r, _, e := syscall.Syscall(syscall.SYS_POLL, uintptr(unsafe.Pointer(p)), 1, 0)
		if e == syscall.EINTR {
			continue
		}
		if e != 0 {
			return true
		}
		return r > 0
	}
}

//go:nocheckptr
func iovTotal(iov *syscall.Iovec, cnt int) (total int) {
	vs := unsafe.Slice(iov, cnt)
	for i := range vs {
		total += int(vs[i].Len)
	}
	return total
}

// clipIov returns a copy of the vector limited to max bytes.
//go:nocheckptr
func clipIov(iov *syscall.Iovec, cnt, max int) []syscall.Iovec {
	vs := unsafe.Slice(iov, cnt)
	out := make([]syscall.Iovec, 0, cnt)
	for i := range vs {
		if max <= 0 {
			break
		}
		v := vs[i]
		if int(v.Len) > max {
			v.Len = uint64(max)
		}
		max -= int(v.Len)
		out = append(out, v)
	}
	return out
}

const errRet = ^uintptr(0)

// The uintptr arguments are pointers converted at the call site (netpoll passes the address of
// stack variables such as its msghdr and epoll event). This function parks the goroutine, and a
// parked goroutine's stack may be moved; uintptrescapes makes the compiler put those objects on
// the heap and keep them alive for the duration of the call, as it does for the real syscall
// entry points.
//
//go:uintptrescapes
//go:nocheckptr
//go:norace
func RawSyscall(trap, a1, a2, a3 uintptr) (uintptr, uintptr, syscall.Errno) {
	switch trap {
	case syscall.SYS_READV:
		simrt.Yield("sys.readv", 1)
		fd, cnt := int(a1), int(a3)
		if simrt.FaultChance(K.ReadEINTR) {
			simrt.CountFault("read_eintr")
			ev("readv", fd, 0, syscall.EINTR, 0)
			return errRet, 0, syscall.EINTR
		}
		total := iovTotal((*syscall.Iovec)(unsafe.Pointer(a2)), cnt)
		if K.RecvEAGAIN > 0 && dataAndPeerAlive(fd) && simrt.FaultChance(K.RecvEAGAIN) {
			// readiness was reported and the read finds nothing: legal for a non-blocking socket
			// (select(2), BUGS). The data stays; level-triggered epoll reports it again.
			simrt.CountFault("recv_eagain")
			ev("readv", fd, -1, syscall.EAGAIN, total)
			return errRet, 0, syscall.EAGAIN
		}
		var r uintptr
		var e syscall.Errno
		clipped := 0
		if total > 1 && simrt.FaultChance(K.ShortRead) {
			clipped = 1 + simrt.FaultIntn(total-1, nil)
			vs := clipIov((*syscall.Iovec)(unsafe.Pointer(a2)), cnt, clipped)
			r, _, e = syscall.RawSyscall(trap, a1, uintptr(unsafe.Pointer(&vs[0])), uintptr(len(vs)))
			runtime.KeepAlive(vs)
			if e == 0 && int(r) == clipped {
				simrt.CountFault("short_read")
			}
		} else {
			r, _, e = syscall.RawSyscall(trap, a1, a2, a3)
		}
		if e == 0 {
			account(fd, 0, int(r))
			ev("readv", fd, int(r), 0, total)
		} else {
			ev("readv", fd, -1, e, total)
		}
		return r, 0, e
	case syscall.SYS_WRITEV:
		simrt.Yield("sys.writev", 1)
		fd, cnt := int(a1), int(a3)
		total := iovTotal((*syscall.Iovec)(unsafe.Pointer(a2)), cnt)
		r, e := sendv(fd, trap, a1, (*syscall.Iovec)(unsafe.Pointer(a2)), cnt, total, nil)
		return r, 0, e
	case syscall.SYS_SENDMSG:
		simrt.Yield("sys.sendmsg", 1)
		fd := int(a1)
		mh := (*syscall.Msghdr)(unsafe.Pointer(a2))
		total := iovTotal(mh.Iov, int(mh.Iovlen))
		r, e := sendv(fd, trap, a1, mh.Iov, int(mh.Iovlen), total, mh)
		return r, 0, e
	case syscall.SYS_EPOLL_CREATE1:
		simrt.Yield("sys.epoll_create", 1)
		if K.EpollCreateFail {
			return errRet, 0, syscall.EMFILE
		}
		r, r2, e := syscall.RawSyscall(trap, a1, a2, a3)
		if e == 0 {
			opened(int(r), OwnNetpoll, "epoll")
		}
		ev("epoll_create", int(r), 0, e, 0)
		return r, r2, e
	}
	simrt.Yield("sys.raw", 1)
	return syscall.RawSyscall(trap, a1, a2, a3)
}

//go:nocheckptr
//go:norace
func sendv(fd int, trap, a1 uintptr, iov *syscall.Iovec, cnt, total int, mh *syscall.Msghdr) (uintptr, syscall.Errno) {
	name := "sendmsg"
	if mh == nil {
		name = "writev"
	}
	if total > 0 && simrt.FaultChance(K.SendEAGAIN) {
		simrt.CountFault("send_eagain")
		ev(name, fd, -1, syscall.EAGAIN, total)
		return errRet, syscall.EAGAIN
	}
	vs := unsafe.Slice(iov, cnt)
	clipped := 0
	if total > 1 && simrt.FaultChance(K.ShortWrite) {
		clipped = 1 + simrt.FaultIntn(total-1, nil)
		vs = clipIov(iov, cnt, clipped)
	}
	var r uintptr
	var e syscall.Errno
	if mh != nil {
		m2 := *mh
		m2.Iov = &vs[0]
		m2.Iovlen = uint64(len(vs))
		r, _, e = syscall.RawSyscall(trap, a1, uintptr(unsafe.Pointer(&m2)), syscall.MSG_NOSIGNAL)
		runtime.KeepAlive(&m2)
	} else {
		r, _, e = syscall.RawSyscall(trap, a1, uintptr(unsafe.Pointer(&vs[0])), uintptr(len(vs)))
	}
	runtime.KeepAlive(vs)
	if e == 0 {
		if clipped > 0 && int(r) == clipped {
			simrt.CountFault("short_write")
		}
		account(fd, int(r), 0)
		ev(name, fd, int(r), 0, total)
	} else {
		ev(name, fd, -1, e, total)
	}
	return r, e
}

// EventsDropped is set when the event log overflowed (never with the step caps in use).
var EventsDropped bool

// epollKeys maps the user data of a registration to the descriptor it was made for.
var epollKeys = map[[8]byte]int{}

type epollEvent struct {
	events uint32
	data   [8]byte
}

// The uintptr arguments are pointers converted at the call site (netpoll passes the address of
// stack variables such as its msghdr and epoll event). This function parks the goroutine, and a
// parked goroutine's stack may be moved; uintptrescapes makes the compiler put those objects on
// the heap and keep them alive for the duration of the call, as it does for the real syscall
// entry points.
//
//go:uintptrescapes
//go:nocheckptr
//go:norace
func RawSyscall6(trap, a1, a2, a3, a4, a5, a6 uintptr) (uintptr, uintptr, syscall.Errno) {
	switch trap {
	case syscall.SYS_EPOLL_CTL:
		simrt.Yield("sys.epoll_ctl", 1)
		epfd, op, fd := int(a1), int(a2), int(a3)
		if op == syscall.EPOLL_CTL_ADD && K.EpollCtlAddFail > 0 && K.EpollCtlAddSkip > 0 {
			K.EpollCtlAddSkip--
		} else if op == syscall.EPOLL_CTL_ADD && simrt.FaultChance(K.EpollCtlAddFail) {
			simrt.CountFault("epoll_ctl_add_fail")
			ev("epoll_ctl", fd, op, syscall.ENOSPC, epfd)
			return errRet, 0, syscall.ENOSPC
		}
		if fd >= 0 && fd < MaxFD && vconns[fd] != nil && vconns[fd].pending {
			// a TCP socket in SYN_SENT reports nothing; the unix socket behind it would: hold the
			// registration back until the virtual handshake has finished
			vc := vconns[fd]
			switch op {
			case syscall.EPOLL_CTL_ADD, syscall.EPOLL_CTL_MOD:
				vc.hasReg, vc.regEpfd = true, epfd
				copy(vc.regEvent[:], unsafe.Slice((*byte)(unsafe.Pointer(a4)), 12))
			case syscall.EPOLL_CTL_DEL:
				vc.hasReg = false
			}
			ev("epoll_ctl", fd, op, 0, -1)
			return 0, 0, 0
		}
		r, r2, e := syscall.RawSyscall6(trap, a1, a2, a3, a4, a5, a6)
		if e == 0 && fd >= 0 && fd < MaxFD {
			switch op {
			case syscall.EPOLL_CTL_ADD:
				FDs[fd].EpollIn = epfd
			case syscall.EPOLL_CTL_DEL:
				FDs[fd].EpollIn = 0
			}
			if op != syscall.EPOLL_CTL_DEL && a4 != 0 {
				FDs[fd].EpollKey = (*epollEvent)(unsafe.Pointer(a4)).data
				epollKeys[FDs[fd].EpollKey] = fd
			}
		}
		var evts int
		if a4 != 0 {
			evts = int((*epollEvent)(unsafe.Pointer(a4)).events)
		}
		ev("epoll_ctl", fd, op, e, evts)
		return r, r2, e
	case syscall.SYS_EPOLL_WAIT:
		simrt.Yield("sys.epoll_wait0", 1)
		return epollWait(a1, a2, a3)
	}
	simrt.Yield("sys.raw6", 1)
	return syscall.RawSyscall6(trap, a1, a2, a3, a4, a5, a6)
}

//go:nocheckptr
//go:norace
func epollWait(a1, a2, a3 uintptr) (uintptr, uintptr, syscall.Errno) {
	max := int(a3)
	if max > 1 && simrt.FaultChance(K.EpollClip) {
		max = 1 + simrt.FaultIntn(max-1, nil)
		if max > 4 {
			max = 1 + max%4
		}
	}
	r, r2, e := syscall.RawSyscall6(syscall.SYS_EPOLL_WAIT, a1, a2, uintptr(max), 0, 0, 0)
	if e == 0 && max < int(a3) && int(r) == max {
		simrt.CountFault("epoll_clip")
	}
	if e == 0 && int(r) > 0 {
		// which descriptors this batch is about (harness tasks may wait for "an event of fd has been
		// fetched": the moment from which a close of fd races with the dispatch of that event)
		evs := unsafe.Slice((*epollEvent)(unsafe.Pointer(a2)), int(r))
		for i := range evs {
			if fd, ok := epollKeys[evs[i].data]; ok && FDs[fd].Open && FDs[fd].EpollIn == int(a1) && FDs[fd].EpollKey == evs[i].data {
				FDs[fd].Fetched++
			}
		}
	}
	ev("epoll_wait", int(a1), int(r), e, max)
	return r, r2, e
}

// Fetched reports how many events of fd epoll_wait has handed out during its current registration.
func Fetched(fd int) int {
	if fd < 0 || fd >= MaxFD {
		return 0
	}
	return FDs[fd].Fetched
}

// The uintptr arguments are pointers converted at the call site (netpoll passes the address of
// stack variables such as its msghdr and epoll event). This function parks the goroutine, and a
// parked goroutine's stack may be moved; uintptrescapes makes the compiler put those objects on
// the heap and keep them alive for the duration of the call, as it does for the real syscall
// entry points.
//
//go:uintptrescapes
//go:nocheckptr
//go:norace
func Syscall(trap, a1, a2, a3 uintptr) (uintptr, uintptr, syscall.Errno) {
	switch trap {
	case syscall.SYS_EVENTFD2:
		simrt.Yield("sys.eventfd", 1)
		if simrt.FaultChance(K.EventfdFail) {
			simrt.CountFault("eventfd_fail")
			return errRet, 0, syscall.EMFILE
		}
		r, r2, e := syscall.Syscall(trap, a1, a2|syscall.O_NONBLOCK, a3)
		if e == 0 {
			opened(int(r), OwnNetpoll, "eventfd")
		}
		ev("eventfd", int(r), 0, e, 0)
		return r, r2, e
	}
	simrt.Yield("sys.syscall", 1)
	return syscall.Syscall(trap, a1, a2, a3)
}

// The uintptr arguments are pointers converted at the call site (netpoll passes the address of
// stack variables such as its msghdr and epoll event). This function parks the goroutine, and a
// parked goroutine's stack may be moved; uintptrescapes makes the compiler put those objects on
// the heap and keep them alive for the duration of the call, as it does for the real syscall
// entry points.
//
//go:uintptrescapes
//go:nocheckptr
//go:norace
func Syscall6(trap, a1, a2, a3, a4, a5, a6 uintptr) (uintptr, uintptr, syscall.Errno) {
	switch trap {
	case syscall.SYS_EPOLL_WAIT:
		msec := int(int64(a4))
		if msec == 0 || !simrt.Active() {
			if !simrt.Active() {
				return syscall.Syscall6(trap, a1, a2, a3, a4, a5, a6)
			}
			simrt.Yield("sys.epoll_wait0", 1)
			return epollWait(a1, a2, a3)
		}
		// blocking wait: park in the scheduler until the epoll descriptor is readable
		epfd := int(a1)
		simrt.WaitUntilQuiet("epoll_wait", func() bool { return Readable(epfd) })
		if simrt.FaultChance(K.EpollEINTR) {
			simrt.CountFault("epoll_eintr")
			ev("epoll_wait", epfd, -1, syscall.EINTR, 0)
			return errRet, 0, syscall.EINTR
		}
		return epollWait(a1, a2, a3)
	}
	simrt.Yield("sys.syscall6", 1)
	return syscall.Syscall6(trap, a1, a2, a3, a4, a5, a6)
}

func EpollCreate1(flag int) (int, error) {
	r, _, e := RawSyscall(syscall.SYS_EPOLL_CREATE1, uintptr(flag), 0, 0)
	if e != 0 {
		return -1, e
	}
	return int(r), nil
}

//go:nocheckptr
func EpollCtl(epfd, op, fd int, event *syscall.EpollEvent) error {
	_, _, e := RawSyscall6(syscall.SYS_EPOLL_CTL, uintptr(epfd), uintptr(op), uintptr(fd), uintptr(unsafe.Pointer(event)), 0, 0)
	if e != 0 {
		return e
	}
	return nil
}

//go:nocheckptr
func EpollWait(epfd int, events []syscall.EpollEvent, msec int) (int, error) {
	r, _, e := Syscall6(syscall.SYS_EPOLL_WAIT, uintptr(epfd), uintptr(unsafe.Pointer(&events[0])), uintptr(len(events)), uintptr(msec), 0, 0)
	if e != 0 {
		return -1, e
	}
	return int(r), nil
}
