//go:build go1.22 && race

package simrt

import "runtime"

const RaceBuild = true

func RaceDisable() { runtime.RaceDisable() }
func RaceEnable()  { runtime.RaceEnable() }
