//go:build go1.22

package simrt

import (
	"context"
	"sync/atomic"
	"time"
)

// timeoutCtx is context.WithDeadline on the virtual clock.
type timeoutCtx struct {
	context.Context // a cancel context derived from the parent
	deadline        time.Time
	timedOut        int32
}

func (c *timeoutCtx) Deadline() (time.Time, bool) { return c.deadline, true }

func (c *timeoutCtx) Err() error {
	if err := c.Context.Err(); err != nil {
		if atomic.LoadInt32(&c.timedOut) == 1 {
			return context.DeadlineExceeded
		}
		return err
	}
	return nil
}

// WithTimeout replaces context.WithTimeout in the simulated tree.
func WithTimeout(parent context.Context, d time.Duration) (context.Context, context.CancelFunc) {
	if !InSim() {
		return context.WithTimeout(parent, d)
	}
	Yield("ctx.WithTimeout", 1)
	inner, cancel := context.WithCancel(parent)
	c := &timeoutCtx{Context: inner, deadline: time.Unix(0, UnixNano()+int64(d))}
	if pd, ok := parent.Deadline(); ok && pd.Before(c.deadline) {
		c.deadline = pd
	}
	h := AddTimer(int64(d), func() {
		atomic.StoreInt32(&c.timedOut, 1)
		cancel()
	})
	return c, func() {
		Yield("ctx.cancel", 1)
		h.Cancel()
		cancel()
	}
}

// WithDeadline replaces context.WithDeadline in the simulated tree.
func WithDeadline(parent context.Context, t time.Time) (context.Context, context.CancelFunc) {
	if !InSim() {
		return context.WithDeadline(parent, t)
	}
	return WithTimeout(parent, time.Duration(t.UnixNano()-UnixNano()))
}
