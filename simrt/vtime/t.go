//go:build go1.22

// Package vtime replaces the clock- and timer-related parts of package time by the simulator's
// virtual discrete-event clock. Durations, Time values and constants stay those of package time.
package vtime

import (
	"time"

	"verif.local/simrt"
)

// AsyncChan selects the timer-channel semantics:
//
//	true  - Go <= 1.22 / asynctimerchan=1: capacity-1 channel, the tick is sent at expiry whether or
//	        not anybody listens; Stop/Reset report false when the tick was already sent and do not
//	        drain the channel (what a `go 1.15` module gets by default);
//	false - Go >= 1.23 semantics: no stale tick is ever observable after Stop/Reset returned, and
//	        Stop/Reset report true when the tick had not been received yet.
var AsyncChan = true

type Timer struct {
	C <-chan time.Time

	c    chan time.Time
	h    simrt.TimerHandle
	f    func()
	real *time.Timer
}

//go:norace
func (t *Timer) arm(d time.Duration) {
	t.h = simrt.AddTimer(int64(d), func() {
		if t.f != nil {
			f := t.f
			simrt.GoNamed("afterfunc", false, f)
			return
		}
		select {
		case t.c <- time.Unix(0, simrt.UnixNano()):
		default:
		}
	})
}

func NewTimer(d time.Duration) *Timer {
	if !simrt.InSim() {
		rt := time.NewTimer(d)
		return &Timer{C: rt.C, real: rt}
	}
	simrt.Yield("timer.New", 1)
	t := &Timer{c: make(chan time.Time, 1)}
	t.C = t.c
	t.arm(d)
	return t
}

func AfterFunc(d time.Duration, f func()) *Timer {
	if !simrt.InSim() {
		return &Timer{real: time.AfterFunc(d, f)}
	}
	simrt.Yield("timer.AfterFunc", 1)
	t := &Timer{f: f}
	t.arm(d)
	return t
}

//go:norace
func (t *Timer) stop() bool {
	simrt.RaceDisable()
	defer simrt.RaceEnable()
	active := t.h.Cancel()
	if !AsyncChan && t.c != nil {
		select {
		case <-t.c:
			active = true
		default:
		}
	}
	return active
}

func (t *Timer) Stop() bool {
	if t.real != nil {
		return t.real.Stop()
	}
	simrt.Yield("timer.Stop", 1)
	return t.stop()
}

func (t *Timer) Reset(d time.Duration) bool {
	if t.real != nil {
		return t.real.Reset(d)
	}
	simrt.Yield("timer.Reset", 1)
	active := t.stop()
	t.arm(d)
	return active
}

func After(d time.Duration) <-chan time.Time { return NewTimer(d).C }

func Now() time.Time {
	if !simrt.InSim() {
		return time.Now()
	}
	simrt.Yield("time.Now", 1)
	return time.Unix(0, simrt.UnixNano())
}

func Since(t time.Time) time.Duration { return Now().Sub(t) }
func Until(t time.Time) time.Duration { return t.Sub(Now()) }

func Sleep(d time.Duration) {
	if !simrt.Active() {
		time.Sleep(d)
		return
	}
	if d <= 0 {
		simrt.Yield("time.Sleep", 1)
		return
	}
	simrt.SleepQuiet(int64(d))
}

// Ticker is provided for completeness (netpoll does not use one).
type Ticker struct {
	C    <-chan time.Time
	c    chan time.Time
	d    time.Duration
	h    simrt.TimerHandle
	real *time.Ticker
}

//go:norace
func (t *Ticker) arm() {
	t.h = simrt.AddTimer(int64(t.d), func() {
		select {
		case t.c <- time.Unix(0, simrt.UnixNano()):
		default:
		}
		t.arm()
	})
}

func NewTicker(d time.Duration) *Ticker {
	if !simrt.InSim() {
		rt := time.NewTicker(d)
		return &Ticker{C: rt.C, real: rt}
	}
	t := &Ticker{c: make(chan time.Time, 1), d: d}
	t.C = t.c
	t.arm()
	return t
}

func (t *Ticker) Stop() {
	if t.real != nil {
		t.real.Stop()
		return
	}
	t.h.Cancel()
}

func (t *Ticker) Reset(d time.Duration) {
	if t.real != nil {
		t.real.Reset(d)
		return
	}
	t.h.Cancel()
	t.d = d
	t.arm()
}

func Tick(d time.Duration) <-chan time.Time { return NewTicker(d).C }
