//go:build go1.22

// Package vsync is the deterministic replacement for package sync in the simulated tree.
//
// Mutexes are cooperative (a parked task never holds a real mutex) but are built on real
// atomics, so the race detector still sees the happens-before edges a real mutex would give.
// Map iterates in insertion order. Pool is a deterministic free list with a ledger.
package vsync

import (
	"runtime"
	"sync"
	"sync/atomic"

	"verif.local/simrt"
)

type Locker = sync.Locker

// ---------------------------------------------------------------------------------------------

type Mutex struct{ state int32 }

func (m *Mutex) Lock() {
	simrt.Yield("mutex.Lock", 1)
	for !atomic.CompareAndSwapInt32(&m.state, 0, 1) {
		if simrt.Active() {
			simrt.WaitUntilQuiet("mutex", func() bool { return atomic.LoadInt32(&m.state) == 0 })
		} else {
			runtime.Gosched()
		}
	}
}

func (m *Mutex) TryLock() bool {
	simrt.Yield("mutex.TryLock", 1)
	return atomic.CompareAndSwapInt32(&m.state, 0, 1)
}

func (m *Mutex) Unlock() {
	simrt.Yield("mutex.Unlock", 1)
	if !atomic.CompareAndSwapInt32(&m.state, 1, 0) {
		panic("vsync: unlock of unlocked mutex")
	}
}

// RWMutex: state -1 = writer, n>0 = n readers.
type RWMutex struct{ state int32 }

func (m *RWMutex) Lock() {
	simrt.Yield("rwmutex.Lock", 1)
	for !atomic.CompareAndSwapInt32(&m.state, 0, -1) {
		if simrt.Active() {
			simrt.WaitUntilQuiet("rwmutex", func() bool { return atomic.LoadInt32(&m.state) == 0 })
		} else {
			runtime.Gosched()
		}
	}
}

func (m *RWMutex) Unlock() {
	simrt.Yield("rwmutex.Unlock", 1)
	if !atomic.CompareAndSwapInt32(&m.state, -1, 0) {
		panic("vsync: unlock of unlocked rwmutex")
	}
}

func (m *RWMutex) RLock() {
	simrt.Yield("rwmutex.RLock", 1)
	for {
		v := atomic.LoadInt32(&m.state)
		if v >= 0 {
			if atomic.CompareAndSwapInt32(&m.state, v, v+1) {
				return
			}
			continue
		}
		if simrt.Active() {
			simrt.WaitUntilQuiet("rwmutex.r", func() bool { return atomic.LoadInt32(&m.state) >= 0 })
		} else {
			runtime.Gosched()
		}
	}
}

func (m *RWMutex) RUnlock() {
	simrt.Yield("rwmutex.RUnlock", 1)
	if atomic.AddInt32(&m.state, -1) < 0 {
		panic("vsync: runlock of unlocked rwmutex")
	}
}

func (m *RWMutex) RLocker() Locker { return (*rlocker)(m) }

type rlocker RWMutex

func (r *rlocker) Lock()   { (*RWMutex)(r).RLock() }
func (r *rlocker) Unlock() { (*RWMutex)(r).RUnlock() }

// ---------------------------------------------------------------------------------------------

type Once struct {
	done int32
	m    Mutex
}

func (o *Once) Do(f func()) {
	simrt.Yield("once", 1)
	if atomic.LoadInt32(&o.done) == 1 {
		return
	}
	o.m.Lock()
	defer o.m.Unlock()
	if o.done == 0 {
		defer atomic.StoreInt32(&o.done, 1)
		f()
	}
}

type WaitGroup struct{ n int64 }

func (wg *WaitGroup) Add(d int) {
	simrt.Yield("wg.Add", 1)
	if atomic.AddInt64(&wg.n, int64(d)) < 0 {
		panic("vsync: negative WaitGroup counter")
	}
}
func (wg *WaitGroup) Done() { wg.Add(-1) }
func (wg *WaitGroup) Wait() {
	simrt.Yield("wg.Wait", 1)
	for atomic.LoadInt64(&wg.n) != 0 {
		if simrt.Active() {
			simrt.WaitUntilQuiet("waitgroup", func() bool { return atomic.LoadInt64(&wg.n) == 0 })
		} else {
			runtime.Gosched()
		}
	}
}

type Cond struct {
	L   Locker
	gen int64
}

func NewCond(l Locker) *Cond { return &Cond{L: l} }

func (c *Cond) Wait() {
	g := atomic.LoadInt64(&c.gen)
	c.L.Unlock()
	for atomic.LoadInt64(&c.gen) == g {
		if simrt.Active() {
			simrt.WaitUntilQuiet("cond", func() bool { return atomic.LoadInt64(&c.gen) != g })
		} else {
			runtime.Gosched()
		}
	}
	c.L.Lock()
}
func (c *Cond) Signal()    { simrt.Yield("cond.Signal", 1); atomic.AddInt64(&c.gen, 1) }
func (c *Cond) Broadcast() { simrt.Yield("cond.Broadcast", 1); atomic.AddInt64(&c.gen, 1) }

// ---------------------------------------------------------------------------------------------
// Map with insertion-ordered Range.

type Map struct {
	lk   int32
	keys []interface{}
	vals []interface{}
}

func (m *Map) lock() {
	for !atomic.CompareAndSwapInt32(&m.lk, 0, 1) {
		runtime.Gosched()
	}
}
func (m *Map) unlock() { atomic.StoreInt32(&m.lk, 0) }

func (m *Map) find(k interface{}) int {
	for i := range m.keys {
		if m.keys[i] == k {
			return i
		}
	}
	return -1
}

func (m *Map) Load(k interface{}) (interface{}, bool) {
	simrt.Yield("map.Load", 1)
	m.lock()
	defer m.unlock()
	if i := m.find(k); i >= 0 {
		return m.vals[i], true
	}
	return nil, false
}

func (m *Map) Store(k, v interface{}) {
	simrt.Yield("map.Store", 1)
	m.lock()
	defer m.unlock()
	if i := m.find(k); i >= 0 {
		m.vals[i] = v
		return
	}
	m.keys = append(m.keys, k)
	m.vals = append(m.vals, v)
}

func (m *Map) Swap(k, v interface{}) (prev interface{}, loaded bool) {
	simrt.Yield("map.Swap", 1)
	m.lock()
	defer m.unlock()
	if i := m.find(k); i >= 0 {
		prev = m.vals[i]
		m.vals[i] = v
		return prev, true
	}
	m.keys = append(m.keys, k)
	m.vals = append(m.vals, v)
	return nil, false
}

func (m *Map) LoadOrStore(k, v interface{}) (interface{}, bool) {
	simrt.Yield("map.LoadOrStore", 1)
	m.lock()
	defer m.unlock()
	if i := m.find(k); i >= 0 {
		return m.vals[i], true
	}
	m.keys = append(m.keys, k)
	m.vals = append(m.vals, v)
	return v, false
}

func (m *Map) del(i int) {
	m.keys = append(m.keys[:i], m.keys[i+1:]...)
	m.vals = append(m.vals[:i], m.vals[i+1:]...)
}

func (m *Map) LoadAndDelete(k interface{}) (interface{}, bool) {
	simrt.Yield("map.LoadAndDelete", 1)
	m.lock()
	defer m.unlock()
	if i := m.find(k); i >= 0 {
		v := m.vals[i]
		m.del(i)
		return v, true
	}
	return nil, false
}

func (m *Map) Delete(k interface{}) {
	simrt.Yield("map.Delete", 1)
	m.lock()
	defer m.unlock()
	if i := m.find(k); i >= 0 {
		m.del(i)
	}
}

func (m *Map) CompareAndSwap(k, o, n interface{}) bool {
	simrt.Yield("map.CAS", 1)
	m.lock()
	defer m.unlock()
	if i := m.find(k); i >= 0 && m.vals[i] == o {
		m.vals[i] = n
		return true
	}
	return false
}

func (m *Map) CompareAndDelete(k, o interface{}) bool {
	simrt.Yield("map.CAD", 1)
	m.lock()
	defer m.unlock()
	if i := m.find(k); i >= 0 && m.vals[i] == o {
		m.del(i)
		return true
	}
	return false
}

func (m *Map) Clear() {
	simrt.Yield("map.Clear", 1)
	m.lock()
	m.keys, m.vals = nil, nil
	m.unlock()
}

// Range visits a snapshot in insertion order.
func (m *Map) Range(f func(k, v interface{}) bool) {
	simrt.Yield("map.Range", 1)
	m.lock()
	ks := append([]interface{}(nil), m.keys...)
	vs := append([]interface{}(nil), m.vals...)
	m.unlock()
	for i := range ks {
		if !f(ks[i], vs[i]) {
			return
		}
	}
}

// Len is a harness convenience (not part of sync.Map).
func (m *Map) Len() int {
	m.lock()
	defer m.unlock()
	return len(m.keys)
}

// ---------------------------------------------------------------------------------------------
// Pool: deterministic free list with a ledger.

// PoolReuse selects LIFO reuse (true) or never-reuse (false: Get always calls New, Put only
// records the object so that a second Put of it is detected).
var PoolReuse = true

// OnDoublePut is called when an object that is already in a pool is put again.
var OnDoublePut func(x interface{})

var (
	poolsLk  int32
	allPools []*Pool
)

type Pool struct {
	New func() interface{}

	lk    int32
	reg   bool
	items []interface{}
	// statistics for the current run
	Gets, Puts, News int
}

//go:norace
func (p *Pool) lock() {
	simrt.RaceDisable()
	for !atomic.CompareAndSwapInt32(&p.lk, 0, 1) {
		runtime.Gosched()
	}
	if !p.reg {
		p.reg = true
		for !atomic.CompareAndSwapInt32(&poolsLk, 0, 1) {
			runtime.Gosched()
		}
		allPools = append(allPools, p)
		atomic.StoreInt32(&poolsLk, 0)
	}
}

//go:norace
func (p *Pool) unlock() {
	atomic.StoreInt32(&p.lk, 0)
	simrt.RaceEnable()
}

//go:norace
func (p *Pool) Get() interface{} {
	p.lock()
	p.Gets++
	if PoolReuse {
		if n := len(p.items); n > 0 {
			x := p.items[n-1]
			p.items[n-1] = nil
			p.items = p.items[:n-1]
			p.unlock()
			return x
		}
	}
	p.News++
	p.unlock()
	if p.New != nil {
		return p.New()
	}
	return nil
}

//go:norace
func (p *Pool) Put(x interface{}) {
	if x == nil {
		return
	}
	p.lock()
	p.Puts++
	dup := false
	n := len(p.items)
	lo := 0
	if n > 8192 {
		lo = n - 8192
	}
	for i := n - 1; i >= lo; i-- {
		if p.items[i] == x {
			dup = true
			break
		}
	}
	p.items = append(p.items, x)
	p.unlock()
	if dup && OnDoublePut != nil {
		OnDoublePut(x)
	}
}

// ResetPools empties every pool (start of a run: no state may leak between runs).
func ResetPools() {
	for !atomic.CompareAndSwapInt32(&poolsLk, 0, 1) {
		runtime.Gosched()
	}
	ps := append([]*Pool(nil), allPools...)
	atomic.StoreInt32(&poolsLk, 0)
	for _, p := range ps {
		p.lock()
		p.items = nil
		p.Gets, p.Puts, p.News = 0, 0, 0
		p.unlock()
	}
}
