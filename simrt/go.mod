module verif.local/simrt

go 1.15
