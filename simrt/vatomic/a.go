//go:build go1.22

// Package vatomic is sync/atomic with a scheduling point before every operation.
// The operation itself is the real one, so the race detector sees netpoll's real synchronisation.
package vatomic

import (
	"sync/atomic"
	"unsafe"

	"verif.local/simrt"
)

func AddInt32(p *int32, d int32) int32 { simrt.Yield("atomic.Add", 1); return atomic.AddInt32(p, d) }
func LoadInt32(p *int32) int32 { simrt.Yield("atomic.Load", 1); return atomic.LoadInt32(p) }
func StoreInt32(p *int32, v int32) { simrt.Yield("atomic.Store", 1); atomic.StoreInt32(p, v) }
func SwapInt32(p *int32, v int32) int32 { simrt.Yield("atomic.Swap", 1); return atomic.SwapInt32(p, v) }
func CompareAndSwapInt32(p *int32, o, n int32) bool { simrt.Yield("atomic.CAS", 1); return atomic.CompareAndSwapInt32(p, o, n) }

func AddInt64(p *int64, d int64) int64 { simrt.Yield("atomic.Add", 1); return atomic.AddInt64(p, d) }
func LoadInt64(p *int64) int64 { simrt.Yield("atomic.Load", 1); return atomic.LoadInt64(p) }
func StoreInt64(p *int64, v int64) { simrt.Yield("atomic.Store", 1); atomic.StoreInt64(p, v) }
func SwapInt64(p *int64, v int64) int64 { simrt.Yield("atomic.Swap", 1); return atomic.SwapInt64(p, v) }
func CompareAndSwapInt64(p *int64, o, n int64) bool { simrt.Yield("atomic.CAS", 1); return atomic.CompareAndSwapInt64(p, o, n) }

func AddUint32(p *uint32, d uint32) uint32 { simrt.Yield("atomic.Add", 1); return atomic.AddUint32(p, d) }
func LoadUint32(p *uint32) uint32 { simrt.Yield("atomic.Load", 1); return atomic.LoadUint32(p) }
func StoreUint32(p *uint32, v uint32) { simrt.Yield("atomic.Store", 1); atomic.StoreUint32(p, v) }
func SwapUint32(p *uint32, v uint32) uint32 { simrt.Yield("atomic.Swap", 1); return atomic.SwapUint32(p, v) }
func CompareAndSwapUint32(p *uint32, o, n uint32) bool { simrt.Yield("atomic.CAS", 1); return atomic.CompareAndSwapUint32(p, o, n) }

func AddUint64(p *uint64, d uint64) uint64 { simrt.Yield("atomic.Add", 1); return atomic.AddUint64(p, d) }
func LoadUint64(p *uint64) uint64 { simrt.Yield("atomic.Load", 1); return atomic.LoadUint64(p) }
func StoreUint64(p *uint64, v uint64) { simrt.Yield("atomic.Store", 1); atomic.StoreUint64(p, v) }
func SwapUint64(p *uint64, v uint64) uint64 { simrt.Yield("atomic.Swap", 1); return atomic.SwapUint64(p, v) }
func CompareAndSwapUint64(p *uint64, o, n uint64) bool { simrt.Yield("atomic.CAS", 1); return atomic.CompareAndSwapUint64(p, o, n) }

func AddUintptr(p *uintptr, d uintptr) uintptr { simrt.Yield("atomic.Add", 1); return atomic.AddUintptr(p, d) }
func LoadUintptr(p *uintptr) uintptr { simrt.Yield("atomic.Load", 1); return atomic.LoadUintptr(p) }
func StoreUintptr(p *uintptr, v uintptr) { simrt.Yield("atomic.Store", 1); atomic.StoreUintptr(p, v) }
func SwapUintptr(p *uintptr, v uintptr) uintptr { simrt.Yield("atomic.Swap", 1); return atomic.SwapUintptr(p, v) }
func CompareAndSwapUintptr(p *uintptr, o, n uintptr) bool { simrt.Yield("atomic.CAS", 1); return atomic.CompareAndSwapUintptr(p, o, n) }

func AndInt32(p *int32, m int32) int32 { simrt.Yield("atomic.And", 1); return atomic.AndInt32(p, m) }
func OrInt32(p *int32, m int32) int32 { simrt.Yield("atomic.Or", 1); return atomic.OrInt32(p, m) }

func AndInt64(p *int64, m int64) int64 { simrt.Yield("atomic.And", 1); return atomic.AndInt64(p, m) }
func OrInt64(p *int64, m int64) int64 { simrt.Yield("atomic.Or", 1); return atomic.OrInt64(p, m) }

func AndUint32(p *uint32, m uint32) uint32 { simrt.Yield("atomic.And", 1); return atomic.AndUint32(p, m) }
func OrUint32(p *uint32, m uint32) uint32 { simrt.Yield("atomic.Or", 1); return atomic.OrUint32(p, m) }

func AndUint64(p *uint64, m uint64) uint64 { simrt.Yield("atomic.And", 1); return atomic.AndUint64(p, m) }
func OrUint64(p *uint64, m uint64) uint64 { simrt.Yield("atomic.Or", 1); return atomic.OrUint64(p, m) }

func LoadPointer(p *unsafe.Pointer) unsafe.Pointer { simrt.Yield("atomic.Load", 1); return atomic.LoadPointer(p) }
func StorePointer(p *unsafe.Pointer, v unsafe.Pointer) { simrt.Yield("atomic.Store", 1); atomic.StorePointer(p, v) }
func SwapPointer(p *unsafe.Pointer, v unsafe.Pointer) unsafe.Pointer {
	simrt.Yield("atomic.Swap", 1)
	return atomic.SwapPointer(p, v)
}
func CompareAndSwapPointer(p *unsafe.Pointer, o, n unsafe.Pointer) bool {
	simrt.Yield("atomic.CAS", 1)
	return atomic.CompareAndSwapPointer(p, o, n)
}

// Value mirrors atomic.Value.
type Value struct{ v atomic.Value }

func (v *Value) Load() interface{}   { simrt.Yield("atomic.Value.Load", 1); return v.v.Load() }
func (v *Value) Store(x interface{}) { simrt.Yield("atomic.Value.Store", 1); v.v.Store(x) }
func (v *Value) Swap(x interface{}) interface{} {
	simrt.Yield("atomic.Value.Swap", 1)
	return v.v.Swap(x)
}
func (v *Value) CompareAndSwap(o, n interface{}) bool {
	simrt.Yield("atomic.Value.CAS", 1)
	return v.v.CompareAndSwap(o, n)
}

// Bool mirrors atomic.Bool.
type Bool struct{ v atomic.Bool }

func (b *Bool) Load() bool   { simrt.Yield("atomic.Load", 1); return b.v.Load() }
func (b *Bool) Store(x bool) { simrt.Yield("atomic.Store", 1); b.v.Store(x) }
func (b *Bool) Swap(x bool) bool {
	simrt.Yield("atomic.Swap", 1)
	return b.v.Swap(x)
}
func (b *Bool) CompareAndSwap(o, n bool) bool {
	simrt.Yield("atomic.CAS", 1)
	return b.v.CompareAndSwap(o, n)
}

// Int32 mirrors atomic.Int32.
type Int32 struct{ v atomic.Int32 }

func (x *Int32) Load() int32 { simrt.Yield("atomic.Load", 1); return x.v.Load() }
func (x *Int32) Store(v int32) { simrt.Yield("atomic.Store", 1); x.v.Store(v) }
func (x *Int32) Add(d int32) int32 { simrt.Yield("atomic.Add", 1); return x.v.Add(d) }
func (x *Int32) Swap(v int32) int32 { simrt.Yield("atomic.Swap", 1); return x.v.Swap(v) }
func (x *Int32) CompareAndSwap(o, n int32) bool { simrt.Yield("atomic.CAS", 1); return x.v.CompareAndSwap(o, n) }

// Int64 mirrors atomic.Int64.
type Int64 struct{ v atomic.Int64 }

func (x *Int64) Load() int64 { simrt.Yield("atomic.Load", 1); return x.v.Load() }
func (x *Int64) Store(v int64) { simrt.Yield("atomic.Store", 1); x.v.Store(v) }
func (x *Int64) Add(d int64) int64 { simrt.Yield("atomic.Add", 1); return x.v.Add(d) }
func (x *Int64) Swap(v int64) int64 { simrt.Yield("atomic.Swap", 1); return x.v.Swap(v) }
func (x *Int64) CompareAndSwap(o, n int64) bool { simrt.Yield("atomic.CAS", 1); return x.v.CompareAndSwap(o, n) }

// Uint32 mirrors atomic.Uint32.
type Uint32 struct{ v atomic.Uint32 }

func (x *Uint32) Load() uint32 { simrt.Yield("atomic.Load", 1); return x.v.Load() }
func (x *Uint32) Store(v uint32) { simrt.Yield("atomic.Store", 1); x.v.Store(v) }
func (x *Uint32) Add(d uint32) uint32 { simrt.Yield("atomic.Add", 1); return x.v.Add(d) }
func (x *Uint32) Swap(v uint32) uint32 { simrt.Yield("atomic.Swap", 1); return x.v.Swap(v) }
func (x *Uint32) CompareAndSwap(o, n uint32) bool { simrt.Yield("atomic.CAS", 1); return x.v.CompareAndSwap(o, n) }

// Uint64 mirrors atomic.Uint64.
type Uint64 struct{ v atomic.Uint64 }

func (x *Uint64) Load() uint64 { simrt.Yield("atomic.Load", 1); return x.v.Load() }
func (x *Uint64) Store(v uint64) { simrt.Yield("atomic.Store", 1); x.v.Store(v) }
func (x *Uint64) Add(d uint64) uint64 { simrt.Yield("atomic.Add", 1); return x.v.Add(d) }
func (x *Uint64) Swap(v uint64) uint64 { simrt.Yield("atomic.Swap", 1); return x.v.Swap(v) }
func (x *Uint64) CompareAndSwap(o, n uint64) bool { simrt.Yield("atomic.CAS", 1); return x.v.CompareAndSwap(o, n) }

// Uintptr mirrors atomic.Uintptr.
type Uintptr struct{ v atomic.Uintptr }

func (x *Uintptr) Load() uintptr { simrt.Yield("atomic.Load", 1); return x.v.Load() }
func (x *Uintptr) Store(v uintptr) { simrt.Yield("atomic.Store", 1); x.v.Store(v) }
func (x *Uintptr) Add(d uintptr) uintptr { simrt.Yield("atomic.Add", 1); return x.v.Add(d) }
func (x *Uintptr) Swap(v uintptr) uintptr { simrt.Yield("atomic.Swap", 1); return x.v.Swap(v) }
func (x *Uintptr) CompareAndSwap(o, n uintptr) bool { simrt.Yield("atomic.CAS", 1); return x.v.CompareAndSwap(o, n) }

// Pointer mirrors atomic.Pointer.
type Pointer[T any] struct{ v atomic.Pointer[T] }

func (x *Pointer[T]) Load() *T   { simrt.Yield("atomic.Load", 1); return x.v.Load() }
func (x *Pointer[T]) Store(v *T) { simrt.Yield("atomic.Store", 1); x.v.Store(v) }
func (x *Pointer[T]) Swap(v *T) *T {
	simrt.Yield("atomic.Swap", 1)
	return x.v.Swap(v)
}
func (x *Pointer[T]) CompareAndSwap(o, n *T) bool {
	simrt.Yield("atomic.CAS", 1)
	return x.v.CompareAndSwap(o, n)
}
