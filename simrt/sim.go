//go:build go1.22

// Package simrt is the deterministic simulator that the rewritten netpoll tree runs on.
//
// Exactly one task (goroutine) executes at any moment. A task gives up control only inside
// this package (Yield, BeforeBlock/AfterBlock around channel operations, Gosched in spin
// loops, kernel waits, cooperative mutexes, exit). The scheduler goroutine then calls
// synctest.Wait, which returns when every other goroutine of the bubble is durably blocked,
// and draws the next decision from the choice tape.
//
// All hand-offs are hidden from the race detector (runtime.RaceDisable around them and
// //go:norace on the functions), so that in a -race build the detector computes
// happens-before from netpoll's own synchronisation only.
package simrt

import (
	"fmt"
	"runtime"
	"runtime/debug"
	"sort"
	"strings"
	"sync/atomic"
	"testing/synctest"
)

// ---------------------------------------------------------------------------------------------
// PRNG (own implementation so that a seed means the same thing under every Go release)

type Rng struct{ s [4]uint64 }

//go:norace
func splitmix(x *uint64) uint64 {
	*x += 0x9e3779b97f4a7c15
	z := *x
	z = (z ^ (z >> 30)) * 0xbf58476d1ce4e5b9
	z = (z ^ (z >> 27)) * 0x94d049bb133111eb
	return z ^ (z >> 31)
}

func NewRng(seed uint64) *Rng {
	r := &Rng{}
	r.Seed(seed)
	return r
}

//go:norace
func (r *Rng) Seed(seed uint64) {
	x := seed
	for i := range r.s {
		r.s[i] = splitmix(&x)
	}
}

//go:norace
func rotl(x uint64, k uint) uint64 { return (x << k) | (x >> (64 - k)) }

// Uint64 is xoshiro256**.
//go:norace
func (r *Rng) Uint64() uint64 {
	res := rotl(r.s[1]*5, 7) * 9
	t := r.s[1] << 17
	r.s[2] ^= r.s[0]
	r.s[3] ^= r.s[1]
	r.s[1] ^= r.s[2]
	r.s[0] ^= r.s[3]
	r.s[2] ^= t
	r.s[3] = rotl(r.s[3], 45)
	return res
}

//go:norace
func (r *Rng) Intn(n int) int {
	if n <= 1 {
		return 0
	}
	return int(r.Uint64() % uint64(n))
}

// Chance reports true with probability num/den.
//go:norace
func (r *Rng) Chance(num, den int) bool { return r.Intn(den) < num }

// ---------------------------------------------------------------------------------------------
// Tape: the record of every choice of a run. Replaying the tape reproduces the run.

type Tape struct {
	Replay []uint32
	Strict bool // beyond the end of Replay draw 0 instead of consulting the PRNG
	Rec    []uint32
	Rng    *Rng
}

// Choose returns a value in [0,n). In generation mode gen picks it; in replay mode it comes
// from the tape. Value 0 is by convention the simplest choice.
//
//go:norace
func (tp *Tape) Choose(n int, gen func(r *Rng) int) int {
	if n <= 1 {
		return 0
	}
	var v int
	if i := len(tp.Rec); i < len(tp.Replay) {
		v = int(tp.Replay[i]) % n
	} else if tp.Strict || tp.Rng == nil {
		v = 0
	} else if gen != nil {
		v = gen(tp.Rng)
		if v < 0 || v >= n {
			v = 0
		}
	} else {
		v = tp.Rng.Intn(n)
	}
	tp.Rec = append(tp.Rec, uint32(v))
	return v
}

// ---------------------------------------------------------------------------------------------

type state uint8

const (
	stRunnable state = iota // parked on resume; eligible when pred == nil || pred()
	stRunning
	stBlocked // inside an announced channel operation
	stSpin    // parked in a spin loop; eligible once somebody else made progress
	stQuiesce // main task waiting for quiescence
	stExited
)

var stateNames = [...]string{"runnable", "running", "blocked", "spin", "quiesce", "exited"}

type Task struct {
	ID     int
	Name   string
	Daemon bool

	st        state
	pred      func() bool
	why       string // what a parked/blocked task waits for
	resume    chan struct{}
	site      uintptr
	op        string
	spinEpoch uint64
	freed     bool // got a free pass as a spinner: its own steps are not progress of the system
	recent    [24]uintptr
	nrecent   int
	qAdvance  bool
	qLimit    int64 // with qAdvance: do not advance the clock beyond this (0 = no limit)
	prio      int
	blockSite uintptr
}

type TraceEnt struct {
	Step int
	Task int
	Op   string
	PC   uintptr
}

type Violation struct {
	Property    string
	Oracle      string
	Class       string // coarse identity preserved while minimising (defaults to Fingerprint)
	Fingerprint string
	Message     string
	Step        int
}

type PanicRec struct {
	Task  string
	Value string
	Stack string
	Step  int
}

type Config struct {
	SeedS, SeedW     uint64
	ReplayS, ReplayW []uint32
	Strict           bool
	MaxSteps         int
	// schedule policy (generation mode only)
	StayNum, StayDen int  // probability of staying on the current task
	TimerNum         int  // probability (x/256) of offering "advance the clock" as a scheduling choice
	Prio             bool // PCT-like: random priorities, StayNum/StayDen is then the change-point rate
	KeepTrace        bool
	Monitor          func() // evaluated by the scheduler after every step, world stable
}

type Result struct {
	Outcome    string // ok | deadlock | capped | aborted | livelock | unannounced-block
	Steps      int
	VirtualNs  int64
	TraceHash  uint64
	Switches   int
	Violations []Violation
	Panics     []PanicRec
	Blocked    []string // tasks blocked at the end (deadlock witness)
	Leaked     []string
	TapeS      []uint32
	TapeW      []uint32
	Trace      []TraceEnt
	Faults     Counters
	Probes     Counters
	Log        []string
	ClockJumps int
	Spin       string // set when a capped run ended in a tight loop of one task: "task|func1,func2,..."
	SpinAlone  bool   // ... and no other task could take a step and no timer was pending: the loop can never end
	RestSpin   string // tasks that were still spinning when the rest of the system had come to rest and quiescence was declared without them: "task|func1,func2,..."
}

// Counters is a small name->count table kept as a slice (no map: task goroutines update it
// under the simulator's hidden hand-off, and runtime map code is race-instrumented).
type Counters []Counter

type Counter struct {
	Name string
	N    int
}

//go:norace
func (c *Counters) Inc(name string, d int) {
	for i := range *c {
		if (*c)[i].Name == name {
			(*c)[i].N += d
			return
		}
	}
	*c = append(*c, Counter{name, d})
}

func (c Counters) Map() map[string]int {
	m := map[string]int{}
	for _, e := range c {
		m[e.Name] += e.N
	}
	return m
}

type timerEv struct {
	at   int64
	seq  uint64
	fire func()
	idx  int // -1 when not in heap
}

type Sim struct {
	cfg   Config
	tasks []*Task
	cur   *Task
	last  *Task
	S, W  Tape
	prng  *Rng // policy-internal randomness (priorities); never affects replay

	now      int64
	timerSeq uint64
	timers   []*timerEv

	steps     int
	epoch     uint64
	freePass  int
	aborted   bool
	res       *Result
	hash      uint64
	quiesceT  *Task
	smallLock int32
	ring      [256]ringEnt
}

type ringEnt struct {
	task int
	pc   uintptr
}

// cur is read by tasks without synchronisation visible to the race detector; the scheduler's
// hand-off orders the accesses in reality.
var sim *Sim

const baseUnixNano = int64(1_000_000_000) * 1_000_000_000 // 2001-09-09, keeps UnixNano positive

// Active reports whether a simulation is running and the caller is a simulator task.
//
//go:norace
func Active() bool { return sim != nil && sim.cur != nil }

// InSim reports whether a simulation is running (callable from the scheduler goroutine too).
//
//go:norace
func InSim() bool { return sim != nil }

// ---------------------------------------------------------------------------------------------
// Running a simulation

// Run executes main as task 0 under the scheduler and returns when main has returned (or the
// run was aborted, capped or deadlocked). It must be called from the root goroutine of a
// synctest bubble.
func Run(cfg Config, main func()) *Result {
	if cfg.MaxSteps <= 0 {
		cfg.MaxSteps = 20000
	}
	if cfg.StayDen <= 0 {
		cfg.StayNum, cfg.StayDen = 1, 2
	}
	s := &Sim{cfg: cfg}
	s.S = Tape{Replay: cfg.ReplayS, Strict: cfg.Strict, Rng: NewRng(cfg.SeedS), Rec: make([]uint32, 0, 4096)}
	s.W = Tape{Replay: cfg.ReplayW, Strict: cfg.Strict, Rng: NewRng(cfg.SeedW), Rec: make([]uint32, 0, 256)}
	s.prng = NewRng(cfg.SeedS ^ 0x5bd1e995)
	s.res = &Result{}
	s.hash = 14695981039346656037
	sim = s
	defer func() { sim = nil }()

	mainT := s.spawn("main", false, main)
	s.loop(mainT)

	r := s.res
	r.Steps = s.steps
	r.VirtualNs = s.now
	r.TraceHash = s.hash
	r.TapeS = s.S.Rec
	r.TapeW = s.W.Rec
	for _, t := range s.tasks {
		if t.st != stExited {
			d := fmt.Sprintf("%s[%s] %s at %s", t.Name, stateNames[t.st], t.why, SiteString(t.site))
			if r.Outcome == "deadlock" || r.Outcome == "livelock" {
				r.Blocked = append(r.Blocked, d)
			} else if !t.Daemon {
				r.Leaked = append(r.Leaked, d)
			}
		}
	}
	return r
}

func (s *Sim) spawn(name string, daemon bool, f func()) *Task {
	t := s.newTask(name, daemon)
	go taskMain(t, f)
	return t
}

func (s *Sim) newTask(name string, daemon bool) *Task {
	t := &Task{ID: len(s.tasks), Name: name, Daemon: daemon, resume: make(chan struct{}, 1), st: stRunnable, op: "start"}
	t.prio = s.prng.Intn(1 << 20)
	s.tasks = append(s.tasks, t)
	return t
}

func taskMain(t *Task, f func()) {
	RaceDisable()
	<-t.resume
	RaceEnable()
	defer func() {
		if r := recover(); r != nil {
			recordPanic(t, r)
		}
		// a finished task is something others may wait for: release point for the harness edges
		Publish()
		RaceDisable()
		t.st = stExited
		t.why = ""
		RaceEnable()
	}()
	f()
}

//go:norace
func recordPanic(t *Task, r interface{}) {
	if sim == nil {
		return
	}
	if _, ok := r.(abortRun); ok {
		return
	}
	rec := PanicRec{Task: t.Name, Value: fmt.Sprint(r), Stack: trimStack(string(debug.Stack())), Step: sim.steps}
	RaceDisable()
	defer RaceEnable()
	sim.res.Panics = append(sim.res.Panics, rec)
}

func trimStack(st string) string {
	lines := strings.Split(st, "\n")
	var out []string
	for i := 0; i+1 < len(lines) && len(out) < 40; i++ {
		l := lines[i]
		if strings.HasPrefix(l, "\t") || strings.HasPrefix(l, "goroutine ") || l == "" {
			continue
		}
		loc := strings.TrimSpace(lines[i+1])
		if j := strings.Index(loc, " +0x"); j >= 0 {
			loc = loc[:j]
		}
		if strings.Contains(l, "runtime/debug.Stack") || strings.Contains(l, "simrt.recordPanic") || strings.Contains(l, "simrt.taskMain") {
			continue
		}
		if k := strings.LastIndex(l, "("); k > 0 {
			l = l[:k]
		}
		out = append(out, l+" "+loc)
	}
	return strings.Join(out, "\n")
}

type abortRun struct{}

func (s *Sim) loop(mainT *Task) {
	r := s.res
	for {
		synctest.Wait()
		if c := s.cur; c != nil {
			if c.st == stRunning {
				// the task stopped running without telling us: an unannounced blocking operation
				r.Outcome = "unannounced-block"
				r.Blocked = append(r.Blocked, fmt.Sprintf("%s last yield at %s", c.Name, SiteString(c.site)))
				return
			}
			s.last = c
			s.cur = nil
		}
		if s.cfg.Monitor != nil {
			s.cfg.Monitor()
		}
		if s.aborted {
			r.Outcome = "aborted"
			return
		}
		if mainT.st == stExited {
			r.Outcome = "ok"
			return
		}
		if s.steps >= s.cfg.MaxSteps {
			r.Outcome = "capped"
			r.Spin = s.spinWitness()
			if r.Spin != "" && len(s.timers) == 0 {
				r.SpinAlone = true
				for _, t := range s.eligible() {
					if t.ID != s.ring[0].task {
						r.SpinAlone = false
					}
				}
			}
			return
		}
		elig := s.eligible()
		if len(elig) == 0 {
			q := s.quiesceT
			qReady := q != nil && q.st == stQuiesce && (!q.qAdvance || len(s.timers) == 0 || (q.qLimit > 0 && s.timers[0].at > q.qLimit))
			// only spinners left? give them a pass, bounded. The steps a spinner takes between two
			// Gosched calls (re-testing its condition) are not progress of the system.
			if sp := s.spinners(); len(sp) > 0 {
				s.freePass++
				pass := false
				switch {
				case s.freePass <= 50:
					pass = true
				case qReady:
					// 50 rounds in which nobody but the spinners could run: the rest of the system is at
					// rest. Whoever waits for quiescence goes on (it may be the one who ends the spinning);
					// what was spinning is recorded.
					if r.RestSpin == "" {
						r.RestSpin = restWitness(sp)
					}
				case len(s.timers) > 0:
					s.advanceClock()
					continue
				case s.freePass <= 200:
					pass = true
				default:
					r.Outcome = "livelock"
					r.Spin = s.spinWitness()
					return
				}
				if pass {
					for _, t := range sp {
						t.freed = true
					}
					s.epoch++
					continue
				}
			}
			if qReady {
				s.quiesceT = nil
				s.resumeTask(q)
				continue
			}
			if len(s.timers) > 0 {
				s.advanceClock()
				continue
			}
			r.Outcome = "deadlock"
			return
		}
		timerOpt := len(s.timers) > 0 // the choice space must not depend on the policy
		n := len(elig)
		if timerOpt {
			n++
		}
		k := s.S.Choose(n, func(rg *Rng) int { return s.policy(rg, elig, timerOpt) })
		if k == len(elig) {
			s.advanceClock()
			continue
		}
		s.resumeTask(elig[k])
	}
}

// restWitness names the spinning tasks and the functions their recent steps were in.
func restWitness(sp []*Task) string {
	var parts []string
	for _, t := range sp {
		if t.nrecent < len(t.recent) {
			continue // too young to call it a loop
		}
		fns := map[string]bool{}
		for _, pc := range t.recent {
			f := SiteString(pc)
			if i := strings.LastIndex(f, " "); i >= 0 {
				f = f[i+1:]
			}
			fns[f] = true
		}
		var names []string
		for f := range fns {
			names = append(names, f)
		}
		sort.Strings(names)
		parts = append(parts, t.Name+"|"+strings.Join(names, ","))
	}
	return strings.Join(parts, ";")
}

// spinWitness inspects the last steps of a capped run: one task cycling through a handful of
// sites is a tight loop (a spinning poller, a wait loop that can never end).
func (s *Sim) spinWitness() string {
	if s.steps < len(s.ring) {
		return ""
	}
	task := s.ring[0].task
	pcs := map[uintptr]bool{}
	for _, e := range s.ring {
		if e.task != task {
			return ""
		}
		pcs[e.pc] = true
	}
	if len(pcs) > 16 {
		return ""
	}
	fns := map[string]bool{}
	for pc := range pcs {
		f := SiteString(pc)
		if i := strings.LastIndex(f, " "); i >= 0 {
			f = f[i+1:]
		}
		fns[f] = true
	}
	var names []string
	for f := range fns {
		names = append(names, f)
	}
	sort.Strings(names)
	return s.tasks[task].Name + "|" + strings.Join(names, ",")
}

// policy picks an index into elig (or len(elig) for "advance the clock"). Generation mode only.
func (s *Sim) policy(rg *Rng, elig []*Task, timerOpt bool) int {
	if timerOpt && s.cfg.TimerNum > 0 && rg.Intn(256) < s.cfg.TimerNum {
		return len(elig)
	}
	if s.cfg.Prio {
		// PCT-like: run the highest priority; at change points demote the current task
		if s.last != nil && rg.Chance(s.cfg.StayNum, s.cfg.StayDen) {
			s.last.prio = -s.steps
		}
		best := 0
		for i, t := range elig {
			if t.prio > elig[best].prio {
				best = i
			}
		}
		return best
	}
	if len(elig) > 0 && elig[0] == s.last && rg.Chance(s.cfg.StayNum, s.cfg.StayDen) {
		return 0
	}
	return rg.Intn(len(elig))
}

// eligible returns the tasks that can take a step now: the task that ran last first, then by id.
func (s *Sim) eligible() []*Task {
	var out []*Task
	add := func(t *Task) {
		switch t.st {
		case stRunnable:
			if t.pred == nil || t.pred() {
				out = append(out, t)
			}
		case stSpin:
			if s.epoch > t.spinEpoch {
				out = append(out, t)
			}
		}
	}
	if s.last != nil {
		add(s.last)
	}
	for _, t := range s.tasks {
		if t != s.last {
			add(t)
		}
	}
	return out
}

func (s *Sim) spinners() []*Task {
	var out []*Task
	for _, t := range s.tasks {
		if t.st == stSpin {
			out = append(out, t)
		}
	}
	return out
}

func (s *Sim) resumeTask(t *Task) {
	s.steps++
	if t.st != stSpin {
		s.epoch++
		if !t.freed {
			s.freePass = 0
			for _, o := range s.tasks {
				o.freed = false
			}
		}
	}
	if t != s.last {
		s.res.Switches++
	}
	s.ring[s.steps%len(s.ring)] = ringEnt{t.ID, t.site}
	t.recent[t.nrecent%len(t.recent)] = t.site
	t.nrecent++
	// trace + hash
	h := s.hash
	h = (h ^ uint64(t.ID)) * 1099511628211
	h = (h ^ uint64(t.site)) * 1099511628211
	s.hash = h
	if s.cfg.KeepTrace {
		s.res.Trace = append(s.res.Trace, TraceEnt{Step: s.steps, Task: t.ID, Op: t.op, PC: t.site})
	}
	t.st = stRunning
	t.pred = nil
	s.cur = t
	t.resume <- struct{}{}
}

// ---------------------------------------------------------------------------------------------
// virtual clock

func (s *Sim) advanceClock() {
	if len(s.timers) == 0 {
		return
	}
	at := s.timers[0].at
	if at > s.now {
		s.now = at
	}
	s.res.ClockJumps++
	s.epoch++
	s.freePass = 0
	s.hash = (s.hash ^ uint64(at) ^ 0xc10c) * 1099511628211
	if s.cfg.KeepTrace {
		s.res.Trace = append(s.res.Trace, TraceEnt{Step: s.steps, Task: -1, Op: fmt.Sprintf("clock->%dus", s.now/1000)})
	}
	for len(s.timers) > 0 && s.timers[0].at <= s.now {
		ev := s.popTimer()
		ev.fire()
	}
}

func (s *Sim) less(i, j int) bool {
	a, b := s.timers[i], s.timers[j]
	if a.at != b.at {
		return a.at < b.at
	}
	return a.seq < b.seq
}

func (s *Sim) swap(i, j int) {
	s.timers[i], s.timers[j] = s.timers[j], s.timers[i]
	s.timers[i].idx = i
	s.timers[j].idx = j
}

func (s *Sim) up(i int) {
	for i > 0 {
		p := (i - 1) / 2
		if !s.less(i, p) {
			break
		}
		s.swap(i, p)
		i = p
	}
}

func (s *Sim) down(i int) {
	n := len(s.timers)
	for {
		l, r, m := 2*i+1, 2*i+2, i
		if l < n && s.less(l, m) {
			m = l
		}
		if r < n && s.less(r, m) {
			m = r
		}
		if m == i {
			return
		}
		s.swap(i, m)
		i = m
	}
}

func (s *Sim) popTimer() *timerEv {
	ev := s.timers[0]
	n := len(s.timers) - 1
	s.swap(0, n)
	s.timers = s.timers[:n]
	if n > 0 {
		s.down(0)
	}
	ev.idx = -1
	return ev
}

// TimerHandle is an armed virtual-clock event.
type TimerHandle struct{ ev *timerEv }

// AddTimer arms fire to run on the scheduler goroutine after d of virtual time.
// fire must not block and must not call into netpoll.
//
//go:norace
func AddTimer(dNanos int64, fire func()) TimerHandle {
	s := sim
	if s == nil {
		panic("simrt.AddTimer outside a simulation")
	}
	RaceDisable()
	defer RaceEnable()
	if dNanos < 0 {
		dNanos = 0
	}
	s.timerSeq++
	ev := &timerEv{at: s.now + dNanos, seq: s.timerSeq, fire: fire, idx: len(s.timers)}
	s.timers = append(s.timers, ev)
	s.up(ev.idx)
	return TimerHandle{ev}
}

// Cancel removes the event; it reports whether the event was still pending.
//
//go:norace
func (h TimerHandle) Cancel() bool {
	s := sim
	if s == nil || h.ev == nil || h.ev.idx < 0 {
		return false
	}
	RaceDisable()
	defer RaceEnable()
	i := h.ev.idx
	n := len(s.timers) - 1
	s.swap(i, n)
	s.timers = s.timers[:n]
	if i < n {
		s.down(i)
		s.up(i)
	}
	h.ev.idx = -1
	return true
}

// Pending reports whether the event has not fired or been cancelled.
//
//go:norace
func (h TimerHandle) Pending() bool { return h.ev != nil && h.ev.idx >= 0 }

// NowNanos is the virtual time since the start of the run.
//
//go:norace
func NowNanos() int64 {
	if sim == nil {
		return 0
	}
	return sim.now
}

// UnixNano is the virtual wall clock.
//
//go:norace
func UnixNano() int64 { return baseUnixNano + NowNanos() }

// PendingTimers reports how many virtual timer events are armed.
//
//go:norace
func PendingTimers() int {
	if sim == nil {
		return 0
	}
	return len(sim.timers)
}

// ---------------------------------------------------------------------------------------------
// task-side entry points

//go:norace
func callerPC(skip int) uintptr {
	var pcs [1]uintptr
	if runtime.Callers(skip+2, pcs[:]) == 0 {
		return 0
	}
	return pcs[0]
}

// park hands control back to the scheduler until the task is resumed.
//
//go:norace
func park(t *Task, st state, pred func() bool, why string) {
	t.pred = pred
	t.why = why
	t.st = st
	RaceDisable()
	<-t.resume
	RaceEnable()
	if sim != nil && sim.aborted {
		panic(abortRun{})
	}
}

// Yield is a scheduling point. skip names the frame to record as the site (0 = caller of Yield).
//
//go:norace
func Yield(op string, skip int) {
	s := sim
	if s == nil {
		return
	}
	t := s.cur
	if t == nil {
		return
	}
	t.site = callerPC(skip + 1)
	t.op = op
	park(t, stRunnable, nil, "")
}

// hsync carries the happens-before edges of the HARNESS's own hand-offs (a callback publishing a
// connection, a task waiting for it). In a real program the user's code synchronises these; the
// simulator's hand-off is hidden from the race detector, so the harness has to say so explicitly.
var hsync int64

// Publish is a release point of harness code (end of a callback, before signalling another task).
func Publish() { atomic.AddInt64(&hsync, 1) }

// Observe is the matching acquire point (after waiting for something another task published).
func Observe() { atomic.LoadInt64(&hsync) }

// WaitUntil parks the calling harness task until pred (evaluated by the scheduler on a stable
// world) holds; it is an acquire point for what other harness code published.
func WaitUntil(why string, pred func() bool) {
	Publish()
	waitUntil(why, pred, 2)
	Observe()
}

// WaitUntilQuiet is WaitUntil for the shims (no harness synchronisation attached).
//
//go:norace
func WaitUntilQuiet(why string, pred func() bool) { waitUntil(why, pred, 2) }

//go:norace
func waitUntil(why string, pred func() bool, skip int) {
	s := sim
	if s == nil || s.cur == nil {
		if !pred() {
			panic("simrt.WaitUntil outside a simulation: " + why)
		}
		return
	}
	t := s.cur
	t.site = callerPC(skip)
	t.op = "wait:" + why
	park(t, stRunnable, pred, why)
}

// Gosched is runtime.Gosched inside a spin loop: the task becomes eligible again only after
// another task (or the clock) has moved.
//
//go:norace
func Gosched() {
	s := sim
	if s == nil || s.cur == nil {
		runtime.Gosched()
		return
	}
	t := s.cur
	t.site = callerPC(1)
	t.op = "gosched"
	t.spinEpoch = s.epoch
	park(t, stSpin, nil, "spin")
}

// Go starts f as a new simulator task (rewritten `go` statements land here).
//
//go:norace
func Go(f func()) {
	goNamed("", false, f, 2)
}

//go:norace
func GoNamed(name string, daemon bool, f func()) *Task {
	return goNamed(name, daemon, f, 2)
}

//go:norace
func goNamed(name string, daemon bool, f func(), skip int) *Task {
	s := sim
	if s == nil || s.cur == nil {
		if s != nil {
			// spawned from the scheduler goroutine (harness set-up)
			return s.spawn(name, daemon, f)
		}
		go f()
		return nil
	}
	pc := callerPC(skip)
	if name == "" {
		name = "go@" + SiteString(pc)
	}
	full := fmt.Sprintf("%s#%d", name, len(s.tasks)) // (no fmt inside the RaceDisable region: its sync.Pool needs its edges)
	RaceDisable()
	t := s.newTask(full, daemon)
	t.site = pc
	RaceEnable()
	// the go statement itself stays visible to the race detector: creating a goroutine orders
	// everything the parent did before with everything the child does
	go taskMain(t, f)
	Yield("spawn", skip)
	return t
}

// BeforeBlock announces that the caller is about to perform a channel operation that may block.
//
//go:norace
func BeforeBlock() *Task {
	s := sim
	if s == nil || s.cur == nil {
		return nil
	}
	t := s.cur
	pc := callerPC(1)
	t.site = pc
	t.op = "chan"
	park(t, stRunnable, nil, "")
	t.blockSite = pc
	t.why = "channel operation"
	t.st = stBlocked
	return t
}

// AfterBlock is called right after the channel operation completed.
//
//go:norace
func AfterBlock(t *Task) {
	if t == nil {
		return
	}
	t.op = "chan-done"
	park(t, stRunnable, nil, "")
}

// SelectOrder returns the order in which the cases of a multi-way select are polled.
//
//go:norace
func SelectOrder(t *Task, n int) []int {
	r := make([]int, n)
	for i := range r {
		r[i] = i
	}
	s := sim
	if s == nil || t == nil {
		return r
	}
	RaceDisable()
	defer RaceEnable()
	// Fisher-Yates driven by the tape; all-zero choices give declaration order
	for i := 0; i < n-1; i++ {
		j := i + s.S.Choose(n-i, nil)
		r[i], r[j] = r[j], r[i]
	}
	return r
}

// WaitQuiescent parks the calling (main) task until no other task can run. With advance the
// virtual clock is first run dry (every armed timer fires); without it pending timers are left alone.
//
func WaitQuiescent(advance bool) {
	Publish()
	waitQuiescent(advance, 0)
	Observe()
}

// WaitQuiescentFor is WaitQuiescent(true) that lets at most d of virtual time pass: timers due
// later stay armed (needed when something re-arms a timer for ever).
func WaitQuiescentFor(dNanos int64) {
	Publish()
	waitQuiescent(true, dNanos)
	Observe()
}

//go:norace
func waitQuiescent(advance bool, dNanos int64) {
	s := sim
	if s == nil || s.cur == nil {
		panic("simrt.WaitQuiescent outside a simulation")
	}
	t := s.cur
	t.site = callerPC(2)
	t.op = "quiesce"
	t.qAdvance = advance
	t.qLimit = 0
	if dNanos > 0 {
		t.qLimit = s.now + dNanos
	}
	s.quiesceT = t
	park(t, stQuiesce, nil, "quiescence")
}

// Sleep parks the calling task for d of virtual time.
//
func Sleep(dNanos int64) {
	Publish()
	sleep(dNanos)
	Observe()
}

// SleepQuiet is Sleep for the shims (time.Sleep inside netpoll): no harness synchronisation.
//
//go:norace
func SleepQuiet(dNanos int64) { sleep(dNanos) }

//go:norace
func sleep(dNanos int64) {
	s := sim
	if s == nil || s.cur == nil {
		panic("simrt.Sleep outside a simulation")
	}
	done := false
	AddTimer(dNanos, func() { done = true })
	t := s.cur
	t.site = callerPC(2)
	t.op = "sleep"
	park(t, stRunnable, func() bool { return done }, "sleep")
}

// ---------------------------------------------------------------------------------------------
// choices, faults, probes, violations

// Intn draws a workload choice.
//
//go:norace
func Intn(n int) int {
	if sim == nil {
		panic("simrt.Intn outside a simulation")
	}
	RaceDisable()
	defer RaceEnable()
	return sim.W.Choose(n, nil)
}

// FaultIntn draws a fault/schedule-side choice (value 0 = no fault by convention).
//
//go:norace
func FaultIntn(n int, gen func(r *Rng) int) int {
	if sim == nil {
		return 0
	}
	RaceDisable()
	defer RaceEnable()
	return sim.S.Choose(n, gen)
}

// FaultChance draws a yes/no fault decision with probability num/256 (0 never draws).
//
//go:norace
func FaultChance(num int) bool {
	if sim == nil || num <= 0 {
		return false
	}
	return FaultIntn(2, func(r *Rng) int {
		if r.Intn(256) < num {
			return 1
		}
		return 0
	}) == 1
}

//go:norace
func CountFault(kind string) {
	if sim == nil {
		return
	}
	RaceDisable()
	sim.res.Faults.Inc(kind, 1)
	RaceEnable()
}

//go:norace
func Probe(name string) {
	if sim == nil {
		return
	}
	RaceDisable()
	sim.res.Probes.Inc(name, 1)
	RaceEnable()
}

//go:norace
func Logf(format string, a ...interface{}) {
	if sim == nil {
		return
	}
	if len(sim.res.Log) >= 400 {
		return
	}
	line := fmt.Sprintf("[%d] ", sim.steps) + fmt.Sprintf(format, a...)
	RaceDisable()
	sim.res.Log = append(sim.res.Log, line)
	RaceEnable()
}

// SetMonitor installs the function the scheduler evaluates after every step (world stable).
//
//go:norace
func SetMonitor(f func()) {
	if sim != nil {
		sim.cfg.Monitor = f
	}
}

// Step is the global event sequence number (number of scheduling steps taken so far).
//
//go:norace
func Step() int {
	if sim == nil {
		return 0
	}
	return sim.steps
}

// Fail records a violation. The first violation of a run is the one reported.
//
//go:norace
func Fail(property, oracle, fingerprint, format string, a ...interface{}) {
	FailC(property, oracle, fingerprint, fingerprint, format, a...)
}

// FailC is Fail with a separate minimisation class.
//
//go:norace
func FailC(property, oracle, class, fingerprint, format string, a ...interface{}) {
	if sim == nil {
		panic(fmt.Sprintf("violation outside simulation: %s %s: ", property, oracle) + fmt.Sprintf(format, a...))
	}
	msg := fmt.Sprintf(format, a...)
	RaceDisable()
	sim.res.Violations = append(sim.res.Violations, Violation{Property: property, Oracle: oracle, Class: class, Fingerprint: fingerprint,
		Message: msg, Step: sim.steps})
	RaceEnable()
}

// RewriteViolations lets a scripted scenario give the violations of this run a stable identity.
//
//go:norace
func RewriteViolations(f func(v *Violation)) {
	if sim == nil {
		return
	}
	for i := range sim.res.Violations {
		f(&sim.res.Violations[i])
	}
}

// Abort ends the run at the next scheduling point (tasks are abandoned where they are).
//
//go:norace
func Abort() {
	if sim != nil {
		sim.aborted = true
	}
}

// CurrentTask returns the name of the running task ("" on the scheduler goroutine).
//
//go:norace
func CurrentTask() string {
	if sim == nil || sim.cur == nil {
		return ""
	}
	return sim.cur.Name
}

//go:norace
func CurrentTaskID() int {
	if sim == nil || sim.cur == nil {
		return -1
	}
	return sim.cur.ID
}

// TaskStates describes every task (for deadlock witnesses and quiescence oracles).
//
//go:norace
func TaskStates() []string {
	if sim == nil {
		return nil
	}
	var out []string
	for _, t := range sim.tasks {
		out = append(out, fmt.Sprintf("%s:%s", t.Name, stateNames[t.st]))
	}
	return out
}

// BlockedTasks lists non-daemon tasks that are blocked in a channel operation or waiting on a
// predicate that is false right now. Meaningful at quiescence.
//
//go:norace
func BlockedTasks() []*Task {
	if sim == nil {
		return nil
	}
	var out []*Task
	for _, t := range sim.tasks {
		if t.st == stBlocked || (t.st == stRunnable && t.pred != nil && !t.pred()) {
			out = append(out, t)
		}
	}
	return out
}

func (t *Task) BlockedAt() string { return SiteString(t.blockSite) }
func (t *Task) Exited() bool      { return t.st == stExited }
func (t *Task) State() string     { return stateNames[t.st] }
func (t *Task) Why() string       { return t.why }

// SiteString renders a pc as "file.go:line func".
func SiteString(pc uintptr) string {
	if pc == 0 {
		return "?"
	}
	fr, _ := runtime.CallersFrames([]uintptr{pc}).Next()
	file := fr.File
	if i := strings.LastIndex(file, "/"); i >= 0 {
		file = file[i+1:]
	}
	fn := fr.Function
	if i := strings.LastIndex(fn, "/"); i >= 0 {
		fn = fn[i+1:]
	}
	return fmt.Sprintf("%s:%d %s", file, fr.Line, fn)
}

// SortedKeys is a helper for deterministic iteration over small maps in harness code.
func SortedKeys(m map[string]int) []string {
	ks := make([]string, 0, len(m))
	for k := range m {
		ks = append(ks, k)
	}
	sort.Strings(ks)
	return ks
}
