//go:build go1.22 && race

// Race build: no ledger, no reuse (the race detector is the only oracle in this build and the
// shim must not introduce shared state of its own).
package mcache

const (
	Garbage = 0xA5
	Poison  = 0xDB
)

var Reuse = false

func Reset(reuse bool) {}

func Malloc(size int, capacity ...int) []byte {
	c := size
	if len(capacity) > 0 && capacity[0] > size {
		c = capacity[0]
	}
	i := 0
	for (1 << uint(i)) < c {
		i++
	}
	return make([]byte, size, 1<<uint(i))
}

func Free(buf []byte) {}
