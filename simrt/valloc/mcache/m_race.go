//go:build go1.22 && race

// Race build: no ledger, no reuse (the race detector is the only oracle in this build and the
// shim must not introduce shared state of its own).
package mcache

const (
	Garbage = 0xA5
	Poison  = 0xDB
)

var Reuse = false

func Reset(reuse bool) {}

func Malloc(size int, capacity ...int) []byte {
	c := size
	if len(capacity) > 0 && capacity[0] > size {
		c = capacity[0]
	}
	i := 0
	for (1 << uint(i)) < c {
		i++
	}
	return make([]byte, size, 1<<uint(i))
}

func Free(buf []byte) {}

// API stubs so that the buffer scenarios still compile in the race build (they are not run there).

type Block struct {
	Base   *byte
	Cap    int
	Free   bool
	Frees  int
	Site   uintptr
	FSite  uintptr
	Serial int
}

type Event struct {
	Kind  string
	Cap   int
	Site  uintptr
	Prev  uintptr
	Step  int
	Block int
}

var Events []Event

func Lookup(p *byte) *Block { return nil }
func Outstanding() int      { return 0 }
func Blocks() []*Block      { return nil }
