//go:build go1.22

package mcache

import "runtime"

// simrtCaller returns the netpoll call site of Malloc/Free (skipping the malloc/free helpers).
func simrtCaller() uintptr {
	var pcs [4]uintptr
	n := runtime.Callers(4, pcs[:])
	if n == 0 {
		return 0
	}
	return pcs[0]
}
