//go:build go1.22 && !race

// Package mcache replaces bytedance/gopkg/lang/mcache by an instrumented pool with the same
// capacity rule (capacity rounded up to a power of two; Free ignores other capacities) and a
// ledger of every block.
package mcache

import (
	"unsafe"

	"verif.local/simrt"
)

const (
	Garbage = 0xA5 // fill of every block handed out
	Poison  = 0xDB // fill of every block taken back
)

// Mode: false = never reuse a freed block (it stays poisoned for the rest of the run);
// true = LIFO reuse per size class, the adversarial behaviour a sync.Pool is allowed to have.
var Reuse = false

type Block struct {
	Base   *byte
	Cap    int
	Free   bool
	Frees  int
	Site   uintptr // Malloc call site
	FSite  uintptr // last Free call site
	Serial int
}

type Event struct {
	Kind  string // double-free | foreign-free
	Cap   int
	Site  uintptr
	Prev  uintptr // site of the earlier free (double-free) or of the Malloc
	Step  int
	Block int
}

var (
	byBase  = map[*byte]*Block{}
	blocks  []*Block
	free    [48][]*Block
	Events  []Event
	Mallocs int
	FreesOK int
	Ignored int
)

// Reset forgets every block (start of a run).
func Reset(reuse bool) {
	Reuse = reuse
	byBase = map[*byte]*Block{}
	blocks = nil
	for i := range free {
		free[i] = nil
	}
	Events = nil
	Mallocs, FreesOK, Ignored = 0, 0, 0
}

func classOf(c int) int {
	i := 0
	for (1 << uint(i)) < c {
		i++
	}
	return i
}

func callerPC() uintptr { return simrtCaller() }

func Malloc(size int, capacity ...int) []byte {
	if len(capacity) > 1 {
		panic("too many arguments to Malloc")
	}
	c := size
	if len(capacity) > 0 && capacity[0] > size {
		c = capacity[0]
	}
	i := classOf(c)
	Mallocs++
	var b *Block
	if Reuse {
		if n := len(free[i]); n > 0 {
			b = free[i][n-1]
			free[i] = free[i][:n-1]
		}
	}
	if b == nil {
		mem := make([]byte, 1<<uint(i))
		b = &Block{Base: &mem[0], Cap: 1 << uint(i), Serial: len(blocks)}
		blocks = append(blocks, b)
		byBase[b.Base] = b
	}
	b.Free = false
	b.Site = callerPC()
	mem := unsafe.Slice(b.Base, b.Cap)
	for k := range mem {
		mem[k] = Garbage
	}
	return mem[:size]
}

func isPowerOfTwo(x int) bool { return x&(-x) == x }

func Free(buf []byte) {
	c := cap(buf)
	if !isPowerOfTwo(c) || c == 0 {
		Ignored++
		return
	}
	base := unsafe.SliceData(buf[:1])
	site := callerPC()
	b := byBase[base]
	if b == nil || b.Cap != c {
		// memory the pool never handed out (caller-owned, or an interior pointer) with a
		// capacity the real pool would accept and hand out again
		Events = append(Events, Event{Kind: "foreign-free", Cap: c, Site: site, Step: simrt.Step(), Block: -1})
		return
	}
	if b.Free {
		Events = append(Events, Event{Kind: "double-free", Cap: c, Site: site, Prev: b.FSite, Step: simrt.Step(), Block: b.Serial})
		if Reuse {
			free[classOf(c)] = append(free[classOf(c)], b) // what the real pool would do
		}
		return
	}
	b.Free = true
	b.Frees++
	b.FSite = site
	FreesOK++
	mem := unsafe.Slice(b.Base, b.Cap)
	for k := range mem {
		mem[k] = Poison
	}
	if Reuse {
		free[classOf(c)] = append(free[classOf(c)], b)
	}
}

// Lookup finds the block that contains p.
func Lookup(p *byte) *Block {
	if b := byBase[p]; b != nil {
		return b
	}
	a := uintptr(unsafe.Pointer(p))
	for _, b := range blocks {
		s := uintptr(unsafe.Pointer(b.Base))
		if a >= s && a < s+uintptr(b.Cap) {
			return b
		}
	}
	return nil
}

// Outstanding counts blocks currently handed out.
func Outstanding() (n int) {
	for _, b := range blocks {
		if !b.Free {
			n++
		}
	}
	return n
}

func Blocks() []*Block { return blocks }
