//go:build go1.22

// Package fastrand replaces bytedance/gopkg/lang/fastrand: randomness comes from the tape.
package fastrand

import (
	"math/rand"

	"verif.local/simrt"
)

func Intn(n int) int {
	if !simrt.InSim() {
		return rand.Intn(n)
	}
	simrt.Yield("fastrand", 1)
	return simrt.FaultIntn(n, nil)
}
func Uint32() uint32 {
	if !simrt.InSim() {
		return rand.Uint32()
	}
	return uint32(simrt.FaultIntn(1<<30, nil))
}
func Uint32n(n uint32) uint32 { return uint32(Intn(int(n))) }
func Int() int                { return Intn(1 << 30) }
func Int31n(n int32) int32    { return int32(Intn(int(n))) }
func Int63n(n int64) int64    { return int64(Intn(int(n))) }
func Uint64n(n uint64) uint64 { return uint64(Intn(int(n))) }
