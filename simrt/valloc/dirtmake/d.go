//go:build go1.22

// Package dirtmake replaces bytedance/gopkg/lang/dirtmake: the memory it returns is filled with
// garbage up to its capacity, because the real one returns uninitialised memory.
package dirtmake

const Garbage = 0xC7

func Bytes(len, cap int) []byte {
	b := make([]byte, cap)
	for i := range b {
		b[i] = Garbage
	}
	return b[:len]
}
