package main

func init() {
	addPlan(&propertyPlan{ID: "C07",
		Scenarios: []scenarioPlan{{Name: "c07_reader", Quick: 60000, Thorough: 3000000}},
		Rule: "one run = one seeded execution (workload tape + schedule/fault tape) of a reader issuing 1-5 timed/untimed Reader calls (Until lines are exactly the call's 1-5000 bytes long) against a chunking, pausing, closing peer; non-trivial = at least one call had to wait (fewer bytes buffered than needed at invocation); distinct = distinct hash of the step trace (task, netpoll call site per step, clock jumps)",
		Assume: []string{"single reader per connection (documented contract)", "simulator yields at atomics, syscalls, channel/mutex operations, spawns; weak-memory reorderings are not modelled", "AF_UNIX stream sockets only"},
		Real:   commonReal, Stub: commonStub})

	lbRule := "one run = one seeded operation sequence (1-60 ops, most <= 12) over Malloc/WriteBinary/WriteString/WriteByte/WriteDirect/MallocAck/Append/Flush and Next/Peek/Skip/Until/ReadString/ReadBinary/ReadByte/Slice/Release/readCopy/Bytes/GetBytes (lb_seq) or the poller's book/bookAck/resetTail protocol mixed with reads (lb_poller), on a LinkBuffer with seeded node capacity (16..4096), initial size, allocator mode (poison-never-reuse / LIFO reuse) and node-pool mode; sizes boundary-heavy (0,1,node-remaining+-1,1KB+-1,4KB+-1,8KB+-1, rarely 8MB+-1); non-trivial = the sequence crossed a node boundary, used a no-copy write or an appended buffer; distinct = distinct operation-name/size trace hash"
	lbAssume := []string{"contract of nocopy.go respected: one goroutine, zero-copy results not used after Release (or after Slice, which documents a Release), Malloc'd slices filled before Flush, 0<=MallocAck(n)<=MallocLen, appended buffer never touched again and Flush before reading after Append, WriteDirect only with remain <= bytes malloc'd since the last flush and not mixed with WriteBinary/WriteString in the same unflushed span", "sequential object: no schedule dimension; the simulator owns the allocator (garbage fill, poison on free, adversarial reuse) and the history"}
	lbStub := []string{"mcache/dirtmake allocator (valloc: garbage fill, poison, ledger)", "sync.Pool of buffer nodes (vsync.Pool with double-put ledger)"}
	lbReal := []string{"nocopy_linkbuffer.go, nocopy.go (rewritten copy of the current /repo working tree)"}
	for _, id := range []string{"C01", "C02", "C03"} {
		sc := []scenarioPlan{{Name: "lb_seq", Quick: 150000, Thorough: 6000000}, {Name: "lb_poller", Quick: 50000, Thorough: 2000000}}
		if id == "C02" {
			sc = append(sc, scenarioPlan{Name: "lb_known", Quick: 16, Thorough: 16})
		}
		if id == "C02" || id == "C03" {
			sc = append(sc, scenarioPlan{Name: "lb_conc", Quick: 30000, Thorough: 1500000})
		}
		addPlan(&propertyPlan{ID: id,
			Scenarios: sc,
			Rule: lbRule, Assume: lbAssume, Real: lbReal, Stub: lbStub})
	}

	addPlan(&propertyPlan{ID: "C16",
		Scenarios: []scenarioPlan{{Name: "zc_reader", Quick: 100000, Thorough: 5000000}, {Name: "zc_writer", Quick: 100000, Thorough: 5000000}},
		Rule: "one run = one scripted io.Reader (total 0..20000 bytes, per-call counts 0..len(p), final error io.EOF or a foreign error, delivered with the last data or alone) driven by 1-10 generated Reader calls, or one scripted io.Writer (short writes with error, full writes with error, zero writes) driven by 1-12 generated Writer calls and Flushes, or the io adapters over a LinkBuffer; non-trivial = the source/sink was called more than once; distinct = distinct hash of (calls, bytes, operations)",
		Assume: []string{"io.Reader contract: 0 <= n <= len(p), at most three consecutive (0, nil) reads; io.Writer contract: n < len(p) only together with a non-nil error", "sequential: no schedule dimension"},
		Real:   []string{"nocopy_readwriter.go, nocopy_linkbuffer.go, nocopy.go (rewritten copy of the current /repo working tree)"},
		Stub:   []string{"the wrapped io.Reader / io.Writer (scripted from the tape)", "mcache/dirtmake allocator (valloc)"}})

	lifeRule := "one run = one seeded execution of a real server (listener, accept path, 1-2 pollers) with one accepted connection: configuration (which callbacks, how many close callbacks, OnConnect behaviour, per-invocation handler script consume/gate/echo/close/panic and, for C06, a blocking read whose deadline has already passed), a raw peer that writes a chunked stream with pauses and then stays/closes/half-closes/resets, 0-3 user closers (one may Detach), optional Shutdown; non-trivial = a connection was accepted and the peer wrote, closed or a user closer acted; distinct = distinct hash of the step trace"
	lifeAssume := []string{"the handler consumes at least one byte per invocation or closes the connection (documented OnRequest contract)", "one reader (the handler) per connection", "AF_UNIX stream sockets on the real kernel", "yields at atomics, syscalls, channel/mutex operations, spawns"}
	addPlan(&propertyPlan{ID: "C05", Scenarios: []scenarioPlan{{Name: "c05_teardown", Quick: 40000, Thorough: 2500000}, {Name: "c06_handler", Quick: 5000, Thorough: 250000}, {Name: "c09_callbacks", Quick: 5000, Thorough: 250000}, {Name: "c05_prepare", Quick: 8000, Thorough: 300000}}, Rule: lifeRule + "; c05_prepare: a server whose OnPrepare registers 1-3 close callbacks and then closes the connection itself, or whose registration with the poller fails (epoll_ctl ADD error), or that lets it through (and, one case in four, the user detaches it once accepted: the registration must be gone, the descriptor open, its peer keeps writing or hangs up), for 1-4 clients one after the other on recycled poller slots: every close callback exactly once, the descriptor closed, IsActive false, connections that were let through undisturbed, Shutdown returns", Assume: lifeAssume, Real: commonReal, Stub: commonStub})
	addPlan(&propertyPlan{ID: "C06", Scenarios: []scenarioPlan{{Name: "c06_handler", Quick: 40000, Thorough: 2500000}, {Name: "c05_teardown", Quick: 5000, Thorough: 250000}, {Name: "c09_callbacks", Quick: 5000, Thorough: 250000}, {Name: "c06_late", Quick: 10000, Thorough: 500000}}, Rule: lifeRule + "; c06_late: a client connection (FD or dialled) without request handler whose peer sends 1-3 chunks and stays or closes, SetOnRequest called at a seeded moment (at once, after a pause, once all input is buffered, once the peer has hung up), a handler that takes 1, 4 or all bytes per call: every byte offered, serially, before the close callbacks run", Assume: lifeAssume, Real: commonReal, Stub: commonStub})
	addPlan(&propertyPlan{ID: "C09", Scenarios: []scenarioPlan{{Name: "c09_callbacks", Quick: 40000, Thorough: 2500000}, {Name: "c05_teardown", Quick: 5000, Thorough: 250000}, {Name: "c06_handler", Quick: 5000, Thorough: 250000}}, Rule: lifeRule, Assume: lifeAssume, Real: commonReal, Stub: commonStub})

	addPlan(&propertyPlan{ID: "C08",
		Scenarios: []scenarioPlan{{Name: "c08_flush", Quick: 30000, Thorough: 2000000}},
		Rule: "one run = one seeded execution of a writer issuing 1-4 Write/Flush calls (1 byte .. 10x the socket buffer, one payload in four handed over as 33-80 appended buffers, with no/relative/absolute write timeout) on a connection built one of three ways over a socket pair with 4-16 KB buffers, a peer that drains promptly/slowly/not at all/closes, an optional second concurrent Flush caller and an optional local closer, under kernel short writes, EAGAIN and epoll faults; when a call ended in ErrWriteTimeout and everything has come to rest (peer drained, poller idle) a further Flush of 2 KB-100 KB is issued and judged like any other; non-trivial = more than half a socket buffer was submitted; distinct = distinct step-trace hash",
		Assume: []string{"one writer per connection; the second goroutine only calls Flush", "after ErrWriteTimeout the writer submits again only once the poller is idle (an immediate retry shares the unsent tail with a poller that may still be sending it: duplicated bytes and a poller crash in the unchanged code, outside the given properties - DESIGN.md 6.5)", "AF_UNIX stream sockets on the real kernel"},
		Real:   commonReal, Stub: commonStub})
	addPlan(&propertyPlan{ID: "C04",
		Scenarios: []scenarioPlan{{Name: "c04_stream", Quick: 20000, Thorough: 1000000}, {Name: "c08_flush", Quick: 5000, Thorough: 200000}, {Name: "c06_handler", Quick: 5000, Thorough: 200000}},
		Rule: "one run = two real netpoll connections over one socket pair (default, 4 KB or 16 KB buffers); the sender submits 1..70000 bytes of a position-keyed stream through a seeded mix of Write / Malloc / WriteBinary / WriteString / WriteByte / WriteDirect / Append (also of buffers their producer has flushed, and one frame in eight handed over as 33-80 appended buffers) + Flush in seeded chunkings and then closes or not; the receiver is a reader task with a seeded mix and pace of Next/Peek+Skip/ReadBinary/ReadString/ReadByte/Slice/Read/Skip/Release or an OnRequest handler; kernel short writes/reads, send EAGAIN, read EAGAIN after reported readiness, epoll batch clipping and EINTR; non-trivial = more than 300 bytes; distinct = distinct step-trace hash",
		Assume: []string{"one reader and one writer per connection", "AF_UNIX stream sockets on the real kernel (TCP not covered)", "the guarantee is checked up to the first reported write error"},
		Real:   commonReal, Stub: commonStub})

	addPlan(&propertyPlan{ID: "C13",
		Scenarios: []scenarioPlan{{Name: "c13_server", Quick: 15000, Thorough: 600000}, {Name: "c05_teardown", Quick: 5000, Thorough: 200000}},
		Rule: "one run = a real event loop serving a real AF_UNIX listener (netpoll's own listener type, or a net.Listener through ConvertListener) with 1-2 pollers; 1-6 raw clients that connect after a seeded delay, send 0-200 bytes and close at once / after sending / after a pause / when told; handlers that return, sleep (virtual) or wait on a gate; an optional EMFILE stretch on accept; Shutdown with a seeded virtual deadline at a seeded time; 'Shutdown returned nil' is judged twice: at the first quiescence after it returned, with the clients still connected (nothing tracked, every accepted connection closed), and again after the clients were released; non-trivial = at least one connection was accepted; distinct = distinct step-trace hash",
		Assume: []string{"handlers consume their input", "AF_UNIX stream sockets on the real kernel", "descriptor exhaustion is injected at accept/socket/epoll_create only"},
		Real:   commonReal, Stub: commonStub})

	addPlan(&propertyPlan{ID: "C15",
		Scenarios: []scenarioPlan{{Name: "c15_errors", Quick: 15000, Thorough: 600000}, {Name: "c13_server", Quick: 6000, Thorough: 250000}, {Name: "c05_teardown", Quick: 6000, Thorough: 250000}, {Name: "c08_flush", Quick: 3000, Thorough: 100000}, {Name: "c07_reader", Quick: 3000, Thorough: 100000}, {Name: "c05_prepare", Quick: 5000, Thorough: 200000}, {Name: "c14_dial", Quick: 6000, Thorough: 250000}, {Name: "c18_pool", Quick: 3000, Thorough: 100000}},
		Rule: "descriptor ledger armed in every scenario: a descriptor becomes netpoll-owned when a netpoll system call creates it or when it is handed over (NewFDConnection, the listener duplicate) and returns to the harness at Detach; a close of a number that is not open or not owned, a harness-owned trip-wire (opened on the number netpoll just closed) found closed or replaced, or a netpoll-owned descriptor still open after every connection, listener and poller was closed is a violation; the dedicated scenario c15_errors strings together 1-5 error-path life cycles (refused dial, socket option failing after socket(), registration failing, poller creation failing half way, connections closed by either side, dialled and accepted connections); non-trivial = a connection or poller was created; distinct = distinct step-trace hash",
		Assume: []string{"descriptors opened by the standard library on netpoll's behalf (the os.File of a converted net.Listener) are covered by the trip-wire and by an fstat census, not by the call ledger", "AF_UNIX sockets only"},
		Real:   commonReal, Stub: commonStub})
	addPlan(&propertyPlan{ID: "C18",
		Scenarios: []scenarioPlan{{Name: "c18_pool", Quick: 20000, Thorough: 1000000}},
		Rule: "one run = a fresh poller manager with 1-4 configured loops and 1-4 phases; in every phase 1-8 tasks call Pick 1-4 times concurrently (the first phase races the lazy initialisation); between phases SetNumLoops(1..4) and/or SetLoadBalance are applied while nothing is in flight; after each phase: every returned poller is open, the pool has exactly the configured number of pollers and epoll descriptors, round-robin counts differ by at most one, Trigger wakes every loop; non-trivial = more than one phase; distinct = distinct step-trace hash",
		Assume: []string{"reconfiguration concurrent with Pick is outside the documented contract and is not generated"},
		Real:   commonReal, Stub: commonStub})

	addPlan(&propertyPlan{ID: "C14",
		Scenarios: []scenarioPlan{{Name: "c14_dial", Quick: 20000, Thorough: 1000000}, {Name: "c15_errors", Quick: 4000, Thorough: 100000}},
		Rule: "one run = 1-3 targets (TCP v4/v6 literal over the virtual TCP stub: accept after a virtual delay of 0..100ms, refuse, drop, accept-then-reset; unix: listening, absent, or listening with a full accept queue and nobody accepting) and 1-6 concurrent DialConnection calls with timeout 0/1/5/50ms; the connect completing and the timeout firing are both scheduler events; a returned connection must complete an echo round trip; after every dial has returned and every returned connection was closed no socket descriptor opened by a dial and no poller slot may be left; non-trivial = every run; distinct = distinct step-trace hash",
		Assume: []string{"the TCP handshake is a stub (vsys virtual TCP over AF_UNIX: EINPROGRESS, completion/refusal/silence after a virtual delay, SO_ERROR, deferred epoll registration); everything after the connect is the real kernel", "IP literals only (no DNS)", "an untimed dial into a black hole is not generated"},
		Real:   commonReal, Stub: append(append([]string{}, commonStub...), "TCP three-way handshake (vsys virtual TCP)")})

	addPlan(&propertyPlan{ID: "C17",
		Scenarios: []scenarioPlan{{Name: "c17_shardqueue", Quick: 30000, Thorough: 1500000}},
		Rule: "one run = a ShardQueue with 1-4 shards over a real connection whose peer drains; 1-4 adder tasks issue 1-4 bursts of 1-3 getters each, one burst in eight of 33-130 getters (unique 8-byte records, some getters return a nil buffer, a third hand over an already flushed buffer), an optional Close at a seeded time and an optional Add after Close returned; the worker runs as a simulator task through the RunTask seam; non-trivial = more than one getter; distinct = distinct step-trace hash",
		Assume: []string{"the connection stays alive (the peer drains)", "getters are cheap and do not block"},
		Real:   append(append([]string{}, commonReal...), "mux/shard_queue.go"), Stub: commonStub})

	addPlan(&propertyPlan{ID: "C12",
		Scenarios: []scenarioPlan{{Name: "c12_closed", Quick: 40000, Thorough: 1500000}},
		Rule: "the product {36 Connection/Reader/Writer methods} x {closed by user, by peer, by peer then user, detached} x {5 bytes of input buffered or none} x {unflushed output pending or none} x {accepted connection with OnConnect and a close callback, or a bare FD connection} x {called once or twice} x {a new connection has reused the poller slot or not} x {read and write timeouts configured or not} = 9216 cases is sampled by the workload tape, each case reached inside the simulator under seeded schedules and the method then called from a fresh task; non-trivial = every case; distinct = distinct step-trace hash; distinct_abstract_states counts distinct cases of the product",
		Assume: []string{"zero-copy results obtained before the close are not used afterwards", "buffered input of a peer-closed connection stays readable only while the user has not closed it and it has no OnConnect/OnRequest (netpoll then tears it down itself)"},
		Real:   commonReal, Stub: commonStub})

	addPlan(&propertyPlan{ID: "C10",
		Scenarios: []scenarioPlan{{Name: "c10_isolation", Quick: 20000, Thorough: 1000000}, {Name: "c10_batch", Quick: 40000, Thorough: 2000000}, {Name: "c05_prepare", Quick: 6000, Thorough: 200000}, {Name: "c12_closed", Quick: 10000, Thorough: 300000}},
		Rule: "one run = 2-4 generations of connections over one poller and a small descriptor pool: each generation opens a socket pair (lowest free descriptor numbers and the freed poller slot are reused), its peer sends a private position-keyed stream, a reader consumes it, and it is closed by the user, by the peer, by both, or left open; the next generation is opened either at rest or while the poller is busy with the previous one; a stale caller keeps invoking Release/Close/Next/Write/Flush/Len/Skip on connections that are already closed, at seeded steps, including between the fetch and the dispatch of a poller batch; after every generation the slot ownership is audited in-package; c10_batch: one poller, 1-3 bystander connections and connection A get input at the same instant (A's peer may close too), A is closed by its user (optionally as soon as epoll_wait has handed out an event for A) and a new connection B is opened (optionally as soon as A's slot is back on the poller's free chain): the bystanders and B must stay active and receive exactly their own bytes; non-trivial = every run; distinct = distinct step-trace hash",
		Assume: []string{"one reader per connection; stale calls come from one extra goroutine", "a peer-closed connection without callbacks is closed by the user (documented)"},
		Real:   commonReal, Stub: commonStub})
	addPlan(&propertyPlan{ID: "C11",
		Scenarios: []scenarioPlan{{Name: "c11_poller", Quick: 15000, Thorough: 700000}, {Name: "c11_trigger", Quick: 20000, Thorough: 1000000}, {Name: "c18_pool", Quick: 3000, Thorough: 100000}},
		Rule: "one run = the real defaultPoll loop with 1-140 harness-owned FDOperators over socket pairs (140 makes the batch cross the 128-event growth threshold); up to 8 peers write 0-3000 bytes in seeded chunkings and then stay, close, half-close or close with unread data; a third of the descriptors also have output to send through the poller; 0-2 further descriptors are registered the way a connecting socket is (writability only, edge-triggered: events carry OUT, RDHUP, HUP but never IN) with a peer that stays or goes away; optional Detach(+Free), Trigger and finally Close from other tasks; kernel short reads/writes, EAGAIN, epoll EINTR and batch clipping; the flag combinations are those the real kernel produces for AF_UNIX, and in half of the runs the error queue answers EAGAIN as a TCP socket's does; c11_trigger: 1-4 tasks call Trigger 1-3 times each at seeded instants (also while the loop handles an earlier wake-up or socket input), then, with the loop blocked, two further Triggers must each be written to the wake-up descriptor and consumed by the loop; non-trivial = every run; distinct = distinct step-trace hash",
		Assume: []string{"detaching a descriptor means deregistering it and handing its slot back (what connection does); TCP-only flag combinations are not produced", "poll_default_bsd.go cannot be built on this platform and is outside the check"},
		Real:   commonReal, Stub: commonStub})

	addPlan(&propertyPlan{ID: "C19",
		Scenarios: []scenarioPlan{
			{Name: "c05_teardown", Quick: 1500, Thorough: 15000, Race: true}, {Name: "c06_handler", Quick: 1000, Thorough: 10000, Race: true},
			{Name: "c09_callbacks", Quick: 1000, Thorough: 10000, Race: true}, {Name: "c04_stream", Quick: 600, Thorough: 5000, Race: true},
			{Name: "c07_reader", Quick: 1000, Thorough: 10000, Race: true}, {Name: "c08_flush", Quick: 800, Thorough: 7500, Race: true},
			{Name: "c13_server", Quick: 800, Thorough: 7500, Race: true}, {Name: "c14_dial", Quick: 800, Thorough: 7500, Race: true},
			{Name: "c17_shardqueue", Quick: 800, Thorough: 7500, Race: true}, {Name: "c18_pool", Quick: 500, Thorough: 5000, Race: true},
			{Name: "c10_isolation", Quick: 500, Thorough: 5000, Race: true}, {Name: "c10_batch", Quick: 400, Thorough: 5000, Race: true},
			{Name: "c05_prepare", Quick: 400, Thorough: 3750, Race: true}, {Name: "c11_trigger", Quick: 400, Thorough: 3750, Race: true}},
		Rule: "the scenarios of C04-C11, C13, C14, C17, C18 (public API inside its concurrency contract: one reader, one writer, any number of closers per connection; no reconfiguration concurrent with Pick) executed in a -race build of the rewritten tree (netpoll's own race-build files: SafeLinkBuffer, fd->operator map); the simulator's hand-offs are hidden from the detector (runtime.RaceDisable around them, //go:norace on the shims), vsync.Mutex/Map are built on real atomics and vatomic calls the real instrumented atomics, so happens-before comes from netpoll's own synchronisation only; every new detector report is attributed to the run that produced it, reports with an access made by harness code are discarded; non-trivial/distinct as in the hosting scenario",
		Assume: []string{"the Go race detector is the oracle (trusted base)", "a report is a pair of conflicting accesses that are unordered in that execution; the schedule search supplies which accesses occur", "reports are deduplicated per process, so a reported run is confirmed by replaying its unminimised tapes in a fresh process"},
		Real:   commonReal, Stub: commonStub})
}
