package main

func init() {
	addPlan(&propertyPlan{ID: "C07",
		Scenarios: []scenarioPlan{{Name: "c07_reader", Quick: 20000, Thorough: 1500000}},
		Rule: "one run = one seeded execution (workload tape + schedule/fault tape) of a reader issuing 1-5 timed/untimed Reader calls against a chunking, pausing, closing peer; non-trivial = at least one call had to wait (fewer bytes buffered than needed at invocation); distinct = distinct hash of the step trace (task, netpoll call site per step, clock jumps)",
		Assume: []string{"single reader per connection (documented contract)", "simulator yields at atomics, syscalls, channel/mutex operations, spawns; weak-memory reorderings are not modelled", "AF_UNIX stream sockets only"},
		Real:   commonReal, Stub: commonStub})
}
