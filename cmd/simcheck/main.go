// simcheck drives the deterministic-simulation checks of cloudwego/netpoll.
//
//	simcheck run --property C07 --tier quick|thorough      (honours VERIF_SEED, VERIF_TIER)
//	simcheck replay <replay.json>
//	simcheck selftest determinism|rewriter
//	simcheck scenarios
//
// Exit codes: 0 property held on everything explored (KNOWN-FINDING lines possible);
// 1 at least one violation not listed as known (VIOLATION lines); 2 the machinery failed.
package main

import (
	"encoding/json"
	"flag"
	"fmt"
	"io"
	"os"
	"os/exec"
	"os/signal"
	"path/filepath"
	"runtime"
	"sort"
	"strconv"
	"strings"
	"sync"
	"syscall"
	"time"

	"verif.local/simcheck/rewriter"
)

const goTool = "go1.26.8"

// verifDir is /verif; a background run from a snapshot of /verif (vp run) sets VERIF_DIR so that it
// builds from and writes into its own copy.
var verifDir = func() string {
	if d := os.Getenv("VERIF_DIR"); d != "" {
		return d
	}
	return "/verif"
}()

// repoDir is /repo; SIMCHECK_REPO points the checks at a scratch worktree during sensitivity
// experiments (the registered commands never set it).
var repoDir = func() string {
	if d := os.Getenv("SIMCHECK_REPO"); d != "" {
		return d
	}
	return "/repo"
}()

// ---------------------------------------------------------------------------------------------
// plan: which scenarios decide which property, and with what budget

type scenarioPlan struct {
	Name     string
	Quick    int // runs in the quick tier
	Thorough int
	Race     bool // needs the -race build (C19)
	Fine     bool // needs the fine-grain build
}

type propertyPlan struct {
	ID        string
	Scenarios []scenarioPlan
	Rule      string
	Assume    []string
	Real      []string
	Stub      []string
}

var commonReal = []string{"all of netpoll (rewritten copy of the current /repo working tree)", "Go runtime go1.26.8", "Linux kernel: AF_UNIX stream sockets, epoll, eventfd (back-end A)"}
var commonStub = []string{"goroutine scheduling (simrt: one task at a time, tape-driven)", "clock and timers (vtime)", "sync.Mutex/Map/Pool (vsync)", "mcache/dirtmake allocator (valloc)", "handler goroutine pool (Config.Runner seam)", "fastrand (tape)"}

var plans = map[string]*propertyPlan{}

func addPlan(p *propertyPlan) { plans[p.ID] = p }

// ---------------------------------------------------------------------------------------------
// worker protocol (mirrors harness/zzharness/main_test.go)

type Request struct {
	Scenario   string   `json:"scenario"`
	Seed       uint64   `json:"seed"`
	Start      int      `json:"start"`
	Count      int      `json:"count"`
	Stride     int      `json:"stride"`
	DeadlineMs int64    `json:"deadline_ms"`
	Out        string   `json:"out"`
	MaxViol    int      `json:"max_violations"`
	Recheck    int      `json:"recheck_every"`
	Mode       string   `json:"mode"`
	TapeS      []uint32 `json:"tape_s"`
	TapeW      []uint32 `json:"tape_w"`
	Target     string   `json:"target"`
	Trace      bool     `json:"trace"`
	ListHashes bool     `json:"list_hashes"`
	Property   string   `json:"property"`
	RaceLog    string   `json:"race_log"`
}

type ViolationOut struct {
	Run         int            `json:"run"`
	Property    string         `json:"property"`
	Oracle      string         `json:"oracle"`
	Fingerprint string         `json:"fingerprint"`
	Class       string         `json:"class"`
	Message     string         `json:"message"`
	Step        int            `json:"step"`
	Outcome     string         `json:"outcome"`
	Summary     string         `json:"summary"`
	TapeS       []uint32       `json:"tape_s"`
	TapeW       []uint32       `json:"tape_w"`
	Log         []string       `json:"log,omitempty"`
	Trace       []string       `json:"trace,omitempty"`
	Faults      map[string]int `json:"faults,omitempty"`
	Steps       int            `json:"steps"`
	ShrinkTests int            `json:"shrink_tests,omitempty"`
	BySeed      bool           `json:"by_seed,omitempty"` // a crash: identified by (seed, run), there are no tapes
}

type Sample struct {
	Run     int    `json:"run"`
	Summary string `json:"summary"`
	Outcome string `json:"outcome"`
	Steps   int    `json:"steps"`
	Policy  string `json:"policy"`
}

type Response struct {
	Scenario     string         `json:"scenario"`
	Runs         int            `json:"runs"`
	Steps        int64          `json:"steps"`
	VirtualNs    int64          `json:"virtual_ns"`
	Switches     int64          `json:"switches"`
	ClockJumps   int64          `json:"clock_jumps"`
	Outcomes     map[string]int `json:"outcomes"`
	Traces       []uint64       `json:"traces"`
	States       []uint64       `json:"states"`
	NonTrivial   int            `json:"nontrivial"`
	Faults       map[string]int `json:"faults"`
	Probes       map[string]int `json:"probes"`
	Policies     map[string]int `json:"policies"`
	Violations   []ViolationOut `json:"violations"`
	Samples      []Sample       `json:"samples"`
	Rechecked    int            `json:"rechecked"`
	Mismatches   []string       `json:"mismatches"`
	HarnessError []string       `json:"harness_errors"`
	WallMs       int64          `json:"wall_ms"`
	Scenarios    []string       `json:"scenarios,omitempty"`
	RunHashes    []uint64       `json:"run_hashes,omitempty"`
	ClassRuns    map[string]int `json:"class_runs,omitempty"`
}

// Replay is the replay file format.
type Replay struct {
	Version     int            `json:"version"`
	Property    string         `json:"property"`
	Scenario    string         `json:"scenario"`
	Backend     string         `json:"backend"`
	VerifSeed   uint64         `json:"verif_seed"`
	Run         int            `json:"run"`
	Build       map[string]any `json:"build"`
	TapeS       []uint32       `json:"tape_s"`
	TapeW       []uint32       `json:"tape_w"`
	Violation   map[string]any `json:"violation"`
	Summary     string         `json:"summary"`
	Faults      map[string]int `json:"faults"`
	Trace       []string       `json:"trace"`
	Log         []string       `json:"log"`
	Minimised   bool           `json:"minimised"`
	ShrinkTests int            `json:"shrink_tests"`
	BySeed      bool           `json:"by_seed,omitempty"`
}

type KnownFinding struct {
	Status      string `json:"status"` // known | fixed
	Property    string `json:"property"`
	Fingerprint string `json:"fingerprint"`
	What        string `json:"what"`
	Commit      string `json:"commit,omitempty"`
	Replay      string `json:"replay,omitempty"`
}

// ---------------------------------------------------------------------------------------------

var tmpRoot string

func fatal2(format string, a ...any) {
	fmt.Fprintf(os.Stderr, "simcheck: "+format+"\n", a...)
	cleanup()
	os.Exit(2)
}

func cleanup() {
	if tmpRoot != "" {
		os.RemoveAll(tmpRoot)
	}
}

func goEnv() []string {
	env := os.Environ()
	env = append(env, "GOFLAGS=-mod=mod", "GOPROXY=off", "GOSUMDB=off", "GOTOOLCHAIN=local", "GODEBUG=asynctimerchan=0", "CGO_ENABLED=1")
	return env
}

func copyFile(src, dst string) error {
	in, err := os.Open(src)
	if err != nil {
		return err
	}
	defer in.Close()
	if err := os.MkdirAll(filepath.Dir(dst), 0o755); err != nil {
		return err
	}
	out, err := os.Create(dst)
	if err != nil {
		return err
	}
	defer out.Close()
	_, err = io.Copy(out, in)
	return err
}

type buildOpts struct {
	Race bool
	Fine bool
}

type build struct {
	Dir     string
	Worker  string
	Flagged []string
	Files   int
}

// buildSimTree copies the current /repo working tree to a scratch directory, rewrites it, adds
// the harness and builds the worker test binary.
func buildSimTree(opt buildOpts) (*build, error) {
	if tmpRoot == "" {
		d, err := os.MkdirTemp("", "simcheck-")
		if err != nil {
			return nil, err
		}
		tmpRoot = d
	}
	name := "tree"
	if opt.Race {
		name += "-race"
	}
	if opt.Fine {
		name += "-fine"
	}
	dir := filepath.Join(tmpRoot, name)
	err := filepath.Walk(repoDir, func(path string, info os.FileInfo, err error) error {
		if err != nil {
			return err
		}
		rel, _ := filepath.Rel(repoDir, path)
		if info.IsDir() {
			if rel == ".git" || rel == "docs" || strings.HasPrefix(info.Name(), ".") && rel != "." {
				return filepath.SkipDir
			}
			return nil
		}
		n := info.Name()
		if n == "go.mod" || n == "go.sum" || (strings.HasSuffix(n, ".go") && !strings.HasSuffix(n, "_test.go")) {
			return copyFile(path, filepath.Join(dir, rel))
		}
		return nil
	})
	if err != nil {
		return nil, fmt.Errorf("copy tree: %v", err)
	}
	ropt := rewriter.Options{}
	if opt.Fine {
		ropt.FineGrain = map[string]bool{"nocopy_linkbuffer.go": true, "connection_reactor.go": true}
	}
	rep, err := rewriter.RewriteTree(dir, ropt)
	if err != nil {
		return nil, err
	}
	// harness files (not rewritten)
	for _, sub := range []struct{ from, to string }{{"harness/netpoll", ""}, {"harness/mux", "mux"}, {"harness/zzharness", "zzharness"}} {
		ents, err := os.ReadDir(filepath.Join(verifDir, sub.from))
		if err != nil {
			continue
		}
		for _, ent := range ents {
			if ent.IsDir() || !strings.HasSuffix(ent.Name(), ".go") {
				continue
			}
			if err := copyFile(filepath.Join(verifDir, sub.from, ent.Name()), filepath.Join(dir, sub.to, ent.Name())); err != nil {
				return nil, err
			}
		}
	}
	mod, err := os.ReadFile(filepath.Join(dir, "go.mod"))
	if err != nil {
		return nil, err
	}
	mod = append(mod, []byte("\nrequire verif.local/simrt v0.0.0\n\nreplace verif.local/simrt => "+filepath.Join(verifDir, "simrt")+"\n")...)
	if err := os.WriteFile(filepath.Join(dir, "go.mod"), mod, 0o644); err != nil {
		return nil, err
	}
	worker := filepath.Join(dir, "worker.test")
	args := []string{"test", "-c", "-vet=off", "-trimpath", "-o", worker}
	if opt.Race {
		args = append(args, "-race")
	}
	args = append(args, "./zzharness")
	cmd := exec.Command(goTool, args...)
	cmd.Dir = dir
	cmd.Env = goEnv()
	out, err := cmd.CombinedOutput()
	if err != nil {
		return nil, fmt.Errorf("build of the simulated tree failed: %v\n%s", err, out)
	}
	// the go 1.15 language version of the module must have survived (-mod=mod may rewrite go.mod)
	mod2, _ := os.ReadFile(filepath.Join(dir, "go.mod"))
	orig, _ := os.ReadFile(filepath.Join(repoDir, "go.mod"))
	if goLine(string(mod2)) != goLine(string(orig)) {
		return nil, fmt.Errorf("go.mod language version changed during the build: %q -> %q", goLine(string(orig)), goLine(string(mod2)))
	}
	return &build{Dir: dir, Worker: worker, Flagged: rep.Flagged, Files: rep.Files}, nil
}

func goLine(mod string) string {
	for _, l := range strings.Split(mod, "\n") {
		if strings.HasPrefix(l, "go ") {
			return strings.TrimSpace(l)
		}
	}
	return ""
}

var reqSeq int
var reqMu sync.Mutex

func runWorker(b *build, req Request, gomaxprocs int, timeout time.Duration) (*Response, error) {
	reqMu.Lock()
	reqSeq++
	id := reqSeq
	reqMu.Unlock()
	reqPath := filepath.Join(b.Dir, fmt.Sprintf("req-%d.json", id))
	req.Out = filepath.Join(b.Dir, fmt.Sprintf("resp-%d.json", id))
	raw, _ := json.Marshal(req)
	if err := os.WriteFile(reqPath, raw, 0o644); err != nil {
		return nil, err
	}
	defer os.Remove(reqPath)
	defer os.Remove(req.Out)
	cmd := exec.Command(b.Worker, "-test.run", "^TestSim$", "-test.timeout", "0", "-test.count", "1")
	cmd.Dir = b.Dir
	raceLog := filepath.Join(b.Dir, fmt.Sprintf("race-%d", id))
	if strings.Contains(b.Dir, "race") {
		req.RaceLog = raceLog
		raw, _ = json.Marshal(req)
		os.WriteFile(reqPath, raw, 0o644)
	}
	progPath := filepath.Join(b.Dir, fmt.Sprintf("progress-%d", id))
	defer os.Remove(progPath)
	cmd.Env = append(goEnv(), "SIM_REQ="+reqPath, "SIM_PROGRESS="+progPath, "GOMAXPROCS="+strconv.Itoa(gomaxprocs), "GORACE=halt_on_error=0 exitcode=0 log_path="+raceLog)
	var outBuf strings.Builder
	cmd.Stdout, cmd.Stderr = &outBuf, &outBuf
	if err := cmd.Start(); err != nil {
		return nil, err
	}
	done := make(chan error, 1)
	go func() { done <- cmd.Wait() }()
	var werr error
	select {
	case werr = <-done:
	case <-time.After(timeout):
		cmd.Process.Kill()
		<-done
		return nil, fmt.Errorf("worker watchdog: no result after %v (scenario %s start %d)\n%s", timeout, req.Scenario, req.Start, tail(outBuf.String(), 4000))
	}
	data, rerr := os.ReadFile(req.Out)
	if rerr != nil {
		// the process died. If netpoll's own code killed it (stack overflow, fatal error, a panic on
		// a goroutine outside the simulator's recover) that is a verdict, not a harness failure.
		if fn := crashedInNetpoll(outBuf.String()); fn != "" {
			run := req.Start
			if pd, err := os.ReadFile(progPath); err == nil {
				if n, err := strconv.Atoi(strings.TrimSpace(string(pd))); err == nil {
					run = n
				}
			}
			fp := "crash/" + fn
			resp := &Response{Scenario: req.Scenario, Outcomes: map[string]int{"crash": 1}, Faults: map[string]int{}, Probes: map[string]int{}, Policies: map[string]int{}}
			resp.Violations = []ViolationOut{{Run: run, Property: "", Oracle: "no-crash", Fingerprint: fp, Class: fp, BySeed: true,
				Message: "netpoll crashed the process:\n" + tail(outBuf.String(), 3000), Outcome: "crash", Summary: fmt.Sprintf("run %d of scenario %s", run, req.Scenario)}}
			return resp, nil
		}
		return nil, fmt.Errorf("worker failed (%v) without a result (scenario %s start %d):\n%s", werr, req.Scenario, req.Start, tail(outBuf.String(), 6000))
	}
	var resp Response
	if err := json.Unmarshal(data, &resp); err != nil {
		return nil, fmt.Errorf("worker result unreadable: %v", err)
	}
	if werr != nil && !(strings.Contains(b.Dir, "race") && strings.Contains(outBuf.String(), "race detected during execution of test")) {
		resp.HarnessError = append(resp.HarnessError, fmt.Sprintf("worker exited with %v: %s", werr, tail(outBuf.String(), 2000)))
	}
	return &resp, nil
}

// crashedInNetpoll inspects the output of a dead worker: it returns the innermost netpoll function
// of the crashing goroutine when the crash happened in netpoll's own code (not in the harness or
// the simulator), "" otherwise.
func crashedInNetpoll(out string) string {
	i := strings.Index(out, "fatal error:")
	if j := strings.Index(out, "panic:"); j >= 0 && (i < 0 || j < i) {
		i = j
	}
	if i < 0 {
		return ""
	}
	rest := out[i:]
	g := strings.Index(rest, "\ngoroutine ")
	if g < 0 {
		return ""
	}
	lines := strings.Split(rest[g+1:], "\n")
	for k := 1; k < len(lines) && k < 40; k++ {
		l := strings.TrimSpace(lines[k])
		if l == "" {
			break
		}
		if strings.HasPrefix(l, "/") || strings.Contains(l, ".go:") {
			continue
		}
		if strings.Contains(l, "zzsim_") || strings.Contains(l, "zzharness") || strings.Contains(l, "verif.local/simrt") {
			// a frame of ours above netpoll's: look at its location line to be sure
			if k+1 < len(lines) && (strings.Contains(lines[k+1], "zzsim_") || strings.Contains(lines[k+1], "zzharness") || strings.Contains(lines[k+1], "simrt@")) {
				return ""
			}
		}
		if strings.Contains(l, "github.com/cloudwego/netpoll") {
			if k+1 < len(lines) && strings.Contains(lines[k+1], "zzsim_") {
				return ""
			}
			fn := l
			if p := strings.LastIndex(fn, "/"); p >= 0 {
				fn = fn[p+1:]
			}
			if p := strings.LastIndex(fn, "("); p > 0 {
				fn = fn[:p]
			}
			return fn
		}
	}
	return ""
}

func tail(s string, n int) string {
	if len(s) > n {
		h := n / 2
		return s[:h] + "\n...\n" + s[len(s)-h:]
	}
	return s
}

func seedFromEnv() uint64 {
	if v := os.Getenv("VERIF_SEED"); v != "" {
		if n, err := strconv.ParseUint(v, 10, 64); err == nil {
			return n
		}
		if n, err := strconv.ParseInt(v, 10, 64); err == nil {
			return uint64(n)
		}
	}
	return 1
}

func loadKnown() []KnownFinding {
	var k []KnownFinding
	data, err := os.ReadFile(filepath.Join(verifDir, "known_findings.json"))
	if err != nil {
		return nil
	}
	if err := json.Unmarshal(data, &k); err != nil {
		fatal2("known_findings.json unreadable: %v", err)
	}
	return k
}

// ---------------------------------------------------------------------------------------------

type merged struct {
	Response
	traces map[uint64]bool
	states map[uint64]bool
	byScen map[string]*Response
}

// workerChunk is the number of runs one worker process executes before it is replaced.
const workerChunk = 8000

func (m *merged) add(r *Response) {
	m.Runs += r.Runs
	m.Steps += r.Steps
	m.VirtualNs += r.VirtualNs
	m.Switches += r.Switches
	m.ClockJumps += r.ClockJumps
	m.NonTrivial += r.NonTrivial
	m.Rechecked += r.Rechecked
	m.Mismatches = append(m.Mismatches, r.Mismatches...)
	m.HarnessError = append(m.HarnessError, r.HarnessError...)
	for k, v := range r.Outcomes {
		m.Outcomes[k] += v
	}
	for k, v := range r.Faults {
		m.Faults[k] += v
	}
	for k, v := range r.Probes {
		m.Probes[k] += v
	}
	for k, v := range r.Policies {
		m.Policies[k] += v
	}
	sh := fnv64(r.Scenario)
	for _, h := range r.Traces {
		m.traces[h^sh] = true
	}
	for _, h := range r.States {
		m.states[h^sh] = true
	}
	for i := range r.Violations {
		r.Violations[i].Summary = r.Scenario + ": " + r.Violations[i].Summary
	}
	m.Violations = append(m.Violations, r.Violations...)
	bs := m.byScen[r.Scenario]
	if bs == nil {
		bs = &Response{Scenario: r.Scenario, Outcomes: map[string]int{}}
		m.byScen[r.Scenario] = bs
	}
	bs.Runs += r.Runs
	bs.Steps += r.Steps
	bs.NonTrivial += r.NonTrivial
	for k, v := range r.Outcomes {
		bs.Outcomes[k] += v
	}
	if len(bs.Samples) < 3 {
		bs.Samples = append(bs.Samples, r.Samples...)
	}
}

func fnv64(s string) uint64 {
	h := uint64(14695981039346656037)
	for i := 0; i < len(s); i++ {
		h = (h ^ uint64(s[i])) * 1099511628211
	}
	return h
}

func cmdRun(args []string) int {
	fs := flag.NewFlagSet("run", flag.ExitOnError)
	prop := fs.String("property", "", "property id (C01..C19)")
	tier := fs.String("tier", "", "quick | thorough")
	workers := fs.Int("workers", runtime.NumCPU(), "worker processes")
	scale := fs.Float64("scale", 1, "multiply the run budget")
	only := fs.String("scenario", "", "restrict to one scenario")
	fs.Parse(args)
	if *tier == "" {
		*tier = os.Getenv("VERIF_TIER")
	}
	if *tier == "" {
		*tier = "quick"
	}
	plan := plans[*prop]
	if plan == nil {
		fatal2("no plan for property %q", *prop)
	}
	seed := seedFromEnv()
	start := time.Now()
	fmt.Printf("simcheck: property=%s tier=%s VERIF_SEED=%d workers=%d\n", plan.ID, *tier, seed, *workers)

	builds := map[buildOpts]*build{}
	getBuild := func(o buildOpts) *build {
		if b := builds[o]; b != nil {
			return b
		}
		t0 := time.Now()
		b, err := buildSimTree(o)
		if err != nil {
			fatal2("%v", err)
		}
		fmt.Printf("simcheck: built simulated tree (race=%v fine=%v): %d files rewritten in %.1fs\n", o.Race, o.Fine, b.Files, time.Since(t0).Seconds())
		for _, f := range b.Flagged {
			fmt.Printf("simcheck: rewriter flagged: %s\n", f)
		}
		if len(b.Flagged) > 0 {
			fatal2("the rewriter met constructs it cannot put under simulator control (see above); a run over them would not be replayable")
		}
		builds[o] = b
		return b
	}

	m := &merged{traces: map[uint64]bool{}, states: map[uint64]bool{}, byScen: map[string]*Response{}}
	m.Outcomes, m.Faults, m.Probes, m.Policies = map[string]int{}, map[string]int{}, map[string]int{}, map[string]int{}
	violBuild := map[string]*build{}
	for _, sp := range plan.Scenarios {
		if *only != "" && sp.Name != *only {
			continue
		}
		total := sp.Quick
		if *tier == "thorough" {
			total = sp.Thorough
		}
		total = int(float64(total) * *scale)
		if total <= 0 {
			continue
		}
		b := getBuild(buildOpts{Race: sp.Race, Fine: sp.Fine})
		violBuild[sp.Name] = b
		w := *workers
		if w > total {
			w = total
		}
		per := (total + w - 1) / w
		var wg sync.WaitGroup
		resps := make([][]*Response, w)
		errs := make([]error, w)
		timeout := 40 * time.Minute
		if *tier == "quick" {
			timeout = 10 * time.Minute
		}
		for i := 0; i < w; i++ {
			wg.Add(1)
			go func(i int) {
				defer wg.Done()
				cnt := per
				if i+(cnt-1)*w >= total {
					cnt = (total - i + w - 1) / w
				}
				// one OS process per chunk: runs that end with tasks still parked (a capped run, a harness
				// task whose condition never came true) leave their goroutines and everything they
				// reference behind, so a worker's memory grows with the number of runs it has done
				for off := 0; off < cnt && errs[i] == nil; off += workerChunk {
					n := cnt - off
					if n > workerChunk {
						n = workerChunk
					}
					req := Request{Scenario: sp.Name, Seed: seed, Start: i + off*w, Stride: w, Count: n, Recheck: 64, MaxViol: 4, Mode: "run", Property: plan.ID}
					var r *Response
					r, errs[i] = runWorker(b, req, 2, timeout)
					if errs[i] == nil {
						resps[i] = append(resps[i], r)
					}
				}
			}(i)
		}
		wg.Wait()
		for i := 0; i < w; i++ {
			if errs[i] != nil {
				fatal2("%v", errs[i])
			}
			for _, r := range resps[i] {
				m.add(r)
			}
		}
		fmt.Printf("simcheck: scenario %s: %d runs, outcomes %v\n", sp.Name, m.byScen[sp.Name].Runs, m.byScen[sp.Name].Outcomes)
	}
	if len(m.HarnessError) > 0 {
		for _, e := range m.HarnessError {
			fmt.Fprintf(os.Stderr, "simcheck: harness error: %s\n", e)
		}
		fatal2("the harness failed (this is not a verdict about the property)")
	}
	if len(m.Mismatches) > 0 {
		for _, e := range m.Mismatches {
			fmt.Fprintf(os.Stderr, "simcheck: nondeterminism: %s\n", e)
		}
		fatal2("a run did not reproduce from its own tape (harness defect, not a verdict)")
	}

	// violations: group by fingerprint, minimise, confirm in a fresh process, classify
	known := loadKnown()
	byFP := map[string]ViolationOut{}
	scenOf := map[string]string{}
	var fps []string
	for _, v := range m.Violations {
		if v.Property == "" { // a crash is a verdict of the property being checked
			v.Property = plan.ID
			v.Fingerprint = plan.ID + "/" + v.Fingerprint
			v.Class = v.Fingerprint
		}
		if v.Class == "" {
			v.Class = v.Fingerprint
		}
		if _, ok := byFP[v.Class]; !ok {
			byFP[v.Class] = v
			scenOf[v.Class] = strings.SplitN(v.Summary, ": ", 2)[0]
			fps = append(fps, v.Class)
		}
	}
	sort.Strings(fps)
	exit := 0
	reported := map[string]bool{}
	var vioRecords, knownRecords, crossRecords []map[string]any
	for _, fp := range fps {
		v := byFP[fp]
		scen := scenOf[fp]
		b := violBuild[scen]
		if v.Property != plan.ID {
			crossRecords = append(crossRecords, map[string]any{"property": v.Property, "fingerprint": fp, "message": firstLine(v.Message), "scenario": scen})
			fmt.Printf("simcheck: cross-property observation (%s, reported by that property's own check): %s\n", v.Property, fp)
			continue
		}
		rp, err := minimiseAndConfirm(b, scen, seed, v)
		if err != nil {
			fatal2("violation %s found but could not be confirmed: %v", fp, err)
		}
		// the reported fingerprint is that of the minimised run
		fp, _ = rp.Violation["fingerprint"].(string)
		if reported[fp] {
			continue
		}
		reported[fp] = true
		v.Oracle, _ = rp.Violation["oracle"].(string)
		v.Message, _ = rp.Violation["message"].(string)
		path := writeReplay(rp)
		kf := findKnown(known, plan.ID, fp)
		rec := map[string]any{"fingerprint": fp, "oracle": v.Oracle, "message": firstLine(v.Message), "replay": path, "scenario": scen}
		if kf != nil && kf.Status == "known" {
			fmt.Printf("KNOWN-FINDING: property=%s %s [%s]\n", plan.ID, kf.What, fp)
			knownRecords = append(knownRecords, rec)
			continue
		}
		fmt.Printf("VIOLATION property=%s replay=%s\n", plan.ID, path)
		fmt.Printf("  oracle=%s fingerprint=%s\n  %s\n", v.Oracle, fp, firstLine(v.Message))
		vioRecords = append(vioRecords, rec)
		exit = 1
	}

	writeEvidence(plan, *tier, seed, m, start, vioRecords, knownRecords, crossRecords, builds)
	fmt.Printf("simcheck: %d runs, %d distinct non-trivial traces, %d violations, %d known findings, %.1fs\n", m.Runs, len(m.traces), len(vioRecords), len(knownRecords), time.Since(start).Seconds())
	return exit
}

func firstLine(s string) string {
	if i := strings.IndexByte(s, '\n'); i >= 0 {
		return s[:i]
	}
	return s
}

func findKnown(known []KnownFinding, prop, fp string) *KnownFinding {
	for i := range known {
		if known[i].Property == prop && known[i].Fingerprint == fp {
			return &known[i]
		}
	}
	return nil
}

func minimiseAndConfirm(b *build, scen string, seed uint64, v ViolationOut) (*Replay, error) {
	var mv ViolationOut
	resp := &Response{}
	unminimised := false
	if v.BySeed {
		// confirm the crash by running exactly that run again in a fresh process
		c, err := runWorker(b, Request{Scenario: scen, Seed: seed, Start: v.Run, Stride: 1, Count: 1, Mode: "run"}, 2, 5*time.Minute)
		if err != nil {
			return nil, err
		}
		want := v.Fingerprint[strings.Index(v.Fingerprint, "/")+1:]
		if len(c.Violations) == 0 || !c.Violations[0].BySeed || c.Violations[0].Fingerprint != want {
			return nil, fmt.Errorf("the crash of run %d does not reproduce in a fresh process", v.Run)
		}
		return &Replay{Version: 1, Property: v.Property, Scenario: scen, Backend: "A", VerifSeed: seed, Run: v.Run, BySeed: true,
			Build:     map[string]any{"race": strings.Contains(b.Dir, "race"), "fine_grain": strings.Contains(b.Dir, "fine")},
			Violation: map[string]any{"oracle": v.Oracle, "fingerprint": v.Fingerprint, "class": v.Class, "message": v.Message, "outcome": "crash"},
			Summary:   v.Summary}, nil
	}
	if strings.Contains(b.Dir, "race") {
		// the race detector reports every pair of stacks once per process, so a report cannot be
		// re-detected while shrinking in one process: the unminimised tapes are confirmed as they are
		mv = v
	} else {
		var err error
		resp, err = runWorker(b, Request{Scenario: scen, Mode: "shrink", TapeS: v.TapeS, TapeW: v.TapeW, Target: v.Class, Property: v.Property}, 2, 6*time.Minute)
		switch {
		case err != nil:
			// the shrinking worker did not come back (runs of the changed code can be very long):
			// the violation is reported with its unminimised tapes, confirmed in a fresh process below
			fmt.Fprintf(os.Stderr, "simcheck: minimisation of %s abandoned (%v); reporting the unminimised run\n", v.Class, err)
			resp = &Response{}
			mv = v
			unminimised = true
		case len(resp.HarnessError) > 0 || len(resp.Violations) == 0:
			return nil, fmt.Errorf("minimisation failed: %v", resp.HarnessError)
		default:
			mv = resp.Violations[0]
		}
	}
	// fresh-process confirmation of the minimised tapes
	confirm := func(mv ViolationOut) (*Response, error) {
		c, err := runWorker(b, Request{Scenario: scen, Mode: "replay", TapeS: mv.TapeS, TapeW: mv.TapeW, Trace: true}, 2, 5*time.Minute)
		if err != nil {
			return nil, err
		}
		found := -1
		for i := range c.Violations {
			if c.Violations[i].Class == v.Class && (c.Violations[i].Fingerprint == mv.Fingerprint || unminimised) {
				found = i
				break
			}
		}
		if found < 0 {
			return nil, fmt.Errorf("replay does not reproduce %s in a fresh process (got %d violations)", v.Class, len(c.Violations))
		}
		c.Violations[0] = c.Violations[found]
		if !unminimised && len(c.Traces) == 1 && len(resp.Traces) == 1 && c.Traces[0] != resp.Traces[0] {
			return nil, fmt.Errorf("replay trace diverged between processes")
		}
		return c, nil
	}
	c, err := confirm(mv)
	if err != nil && !unminimised && !strings.Contains(b.Dir, "race") {
		// The minimised run does not stand on its own (code that reads memory it has given back behaves
		// differently in another process). The run the search found is what gets reported then - if it
		// reproduces in a fresh process; if it does not either, the machinery is at fault (exit 2).
		fmt.Fprintf(os.Stderr, "simcheck: minimised run of %s not confirmed (%v); trying the unminimised run\n", v.Class, err)
		unminimised = true
		mv = v
		c, err = confirm(mv)
	}
	if err != nil {
		return nil, err
	}
	cv := c.Violations[0]
	return &Replay{Version: 1, Property: v.Property, Scenario: scen, Backend: "A", VerifSeed: seed, Run: v.Run,
		Build: map[string]any{"race": strings.Contains(b.Dir, "race"), "fine_grain": strings.Contains(b.Dir, "fine")},
		TapeS: mv.TapeS, TapeW: mv.TapeW,
		Minimised: !strings.Contains(b.Dir, "race") && !unminimised,
		Violation: map[string]any{"oracle": cv.Oracle, "fingerprint": cv.Fingerprint, "class": cv.Class, "message": cv.Message, "step": cv.Step, "outcome": cv.Outcome},
		Summary:   cv.Summary, Faults: cv.Faults, Trace: cv.Trace, Log: cv.Log, ShrinkTests: mv.ShrinkTests}, nil
}

func safeName(s string) string {
	var sb strings.Builder
	for _, c := range s {
		switch {
		case c >= 'a' && c <= 'z', c >= 'A' && c <= 'Z', c >= '0' && c <= '9', c == '-', c == '_', c == '.':
			sb.WriteRune(c)
		default:
			sb.WriteByte('_')
		}
	}
	r := sb.String()
	if len(r) > 90 {
		r = r[:90]
	}
	return r
}

// outDir is where replays and evidence go: /verif, unless the run is against another tree than
// /repo (SIMCHECK_REPO, used to evaluate seeded changes), whose results must never pass for
// evidence about /repo.
func outDir() string {
	if d := os.Getenv("SIMCHECK_OUT"); d != "" {
		return d
	}
	if os.Getenv("SIMCHECK_REPO") != "" {
		return filepath.Join(os.TempDir(), "simcheck-other-tree")
	}
	return verifDir
}

func writeReplay(rp *Replay) string {
	dir := filepath.Join(outDir(), "replays", rp.Property)
	os.MkdirAll(dir, 0o755)
	fp, _ := rp.Violation["fingerprint"].(string)
	path := filepath.Join(dir, fmt.Sprintf("%s-%d-%d.json", safeName(fp), rp.VerifSeed, rp.Run))
	data, _ := json.MarshalIndent(rp, "", " ")
	if err := os.WriteFile(path, data, 0o644); err != nil {
		fatal2("cannot write replay file: %v", err)
	}
	return path
}

func writeEvidence(plan *propertyPlan, tier string, seed uint64, m *merged, start time.Time, vio, known, cross []map[string]any, builds map[buildOpts]*build) {
	wall := time.Since(start).Seconds()
	var samples []any
	var scen []string
	for n := range m.byScen {
		scen = append(scen, n)
	}
	sort.Strings(scen)
	perScen := map[string]any{}
	for _, n := range scen {
		bs := m.byScen[n]
		for _, s := range bs.Samples {
			if len(samples) < 6 {
				samples = append(samples, map[string]any{"scenario": n, "run": s.Run, "policy": s.Policy, "steps": s.Steps, "outcome": s.Outcome, "case": s.Summary})
			}
		}
		perScen[n] = map[string]any{"runs": bs.Runs, "steps": bs.Steps, "nontrivial": bs.NonTrivial, "outcomes": bs.Outcomes}
	}
	var unreached []string
	for k, v := range m.Probes {
		if v == 0 {
			unreached = append(unreached, k)
		}
	}
	sort.Strings(unreached)
	runsPerHour := 0.0
	if wall > 0 {
		runsPerHour = float64(m.Runs) / wall * 3600
	}
	cov := map[string]any{
		"evaluations":            m.Runs,
		"distinct_nontrivial":    len(m.traces),
		"rule":                   plan.Rule,
		"samples":                samples,
		"runs":                   m.Runs,
		"runs_per_hour":          int64(runsPerHour),
		"steps_total":            m.Steps,
		"context_switches_total": m.Switches,
		"virtual_time_total_ms":  m.VirtualNs / 1e6,
		"clock_jumps":            m.ClockJumps,
		"capped_runs":            m.Outcomes["capped"],
		"outcomes":               m.Outcomes,
		"distinct_traces":        len(m.traces),
		"distinct_abstract_states": len(m.states),
		"nontrivial_runs":        m.NonTrivial,
		"fault_counts":           m.Faults,
		"probes":                 m.Probes,
		"unreached_probes":       unreached,
		"policies":               m.Policies,
		"backends":               map[string]int{"A": m.Runs, "B": 0},
		"determinism":            map[string]any{"rechecked": m.Rechecked, "mismatches": len(m.Mismatches)},
		"components":             map[string]any{"real": plan.Real, "stub": plan.Stub},
		"per_scenario":           perScen,
		"cross_property_observations": cross,
		"known_findings":         known,
		"violations_found":       vio,
		"seeds_per_hour":         int64(runsPerHour),
	}
	ev := map[string]any{
		"property_id": plan.ID,
		"tier":        tier,
		"seed":        int64(seed),
		"level":       "exploration",
		"coverage":    cov,
		"assumptions": plan.Assume,
		"wall_s":      wall,
		"violations":  len(vio),
	}
	os.MkdirAll(filepath.Join(outDir(), "evidence"), 0o755)
	data, _ := json.MarshalIndent(ev, "", " ")
	if err := os.WriteFile(filepath.Join(outDir(), "evidence", plan.ID+".json"), data, 0o644); err != nil {
		fatal2("cannot write evidence: %v", err)
	}
}

// ---------------------------------------------------------------------------------------------

func cmdReplay(args []string) int {
	if len(args) < 1 {
		fatal2("usage: simcheck replay <file>")
	}
	data, err := os.ReadFile(args[0])
	if err != nil {
		fatal2("%v", err)
	}
	var rp Replay
	if err := json.Unmarshal(data, &rp); err != nil {
		fatal2("replay file unreadable: %v", err)
	}
	race, _ := rp.Build["race"].(bool)
	fine, _ := rp.Build["fine_grain"].(bool)
	b, err := buildSimTree(buildOpts{Race: race, Fine: fine})
	if err != nil {
		fatal2("%v", err)
	}
	if rp.BySeed {
		c, err := runWorker(b, Request{Scenario: rp.Scenario, Seed: rp.VerifSeed, Start: rp.Run, Stride: 1, Count: 1, Mode: "run"}, 2, 5*time.Minute)
		if err != nil {
			fatal2("%v", err)
		}
		if len(c.Violations) > 0 && c.Violations[0].BySeed {
			fmt.Printf("VIOLATION property=%s replay=%s\n  reproduced: the process crashes again (%s)\n", rp.Property, args[0], c.Violations[0].Fingerprint)
			return 1
		}
		fmt.Printf("replay: run %d of %s no longer crashes on the current tree\n", rp.Run, rp.Scenario)
		return 0
	}
	resp, err := runWorker(b, Request{Scenario: rp.Scenario, Mode: "replay", TapeS: rp.TapeS, TapeW: rp.TapeW, Trace: true}, 2, 5*time.Minute)
	if err != nil {
		fatal2("%v", err)
	}
	if len(resp.HarnessError) > 0 {
		fatal2("replay: %v", resp.HarnessError)
	}
	want, _ := rp.Violation["fingerprint"].(string)
	for _, v := range resp.Violations {
		if v.Fingerprint == want {
			fmt.Printf("VIOLATION property=%s replay=%s\n  reproduced: %s\n  %s\n", rp.Property, args[0], v.Fingerprint, firstLine(v.Message))
			if os.Getenv("SIMCHECK_VERBOSE") != "" {
				for _, l := range v.Trace {
					fmt.Println("   ", l)
				}
				for _, l := range v.Log {
					fmt.Println("   ", l)
				}
				fmt.Println(v.Message)
			}
			return 1
		}
	}
	if len(resp.Violations) > 0 {
		fmt.Printf("replay: a different violation occurred: %s (%s)\n", resp.Violations[0].Fingerprint, firstLine(resp.Violations[0].Message))
		fmt.Printf("VIOLATION property=%s replay=%s\n", resp.Violations[0].Property, args[0])
		return 1
	}
	fmt.Printf("replay: no violation under this replay on the current tree (outcome %v)\n", resp.Outcomes)
	return 0
}

// cmdDebug executes one run by index and prints its trace.
func cmdDebug(args []string) int {
	fs := flag.NewFlagSet("debug", flag.ExitOnError)
	scen := fs.String("scenario", "", "scenario")
	run := fs.Int("run", 0, "run index")
	race := fs.Bool("race", false, "race build")
	fine := fs.Bool("fine", false, "fine-grain build (statement-level yields in the buffer files)")
	findCapped := fs.Int("find", 0, "search this many runs for a non-ok outcome first")
	fs.Parse(args)
	b, err := buildSimTree(buildOpts{Race: *race, Fine: *fine})
	if err != nil {
		fatal2("%v", err)
	}
	if *findCapped > 0 {
		r, err := runWorker(b, Request{Scenario: *scen, Seed: seedFromEnv(), Start: 0, Stride: 1, Count: *findCapped, Mode: "run", MaxViol: 1000}, 2, 10*time.Minute)
		if err != nil {
			fatal2("%v", err)
		}
		for _, s := range r.Samples {
			fmt.Printf("sample run=%d outcome=%s steps=%d policy=%s %s\n", s.Run, s.Outcome, s.Steps, s.Policy, s.Summary)
		}
		for _, v := range r.Violations {
			fmt.Printf("violation run=%d %s: %s\n", v.Run, v.Fingerprint, firstLine(v.Message))
		}
		fmt.Println(r.Outcomes, r.HarnessError, "violating runs per class:", r.ClassRuns)
		return 0
	}
	resp, err := runWorker(b, Request{Scenario: *scen, Seed: seedFromEnv(), Start: *run, Mode: "debug"}, 2, 5*time.Minute)
	if err != nil {
		fatal2("%v", err)
	}
	fmt.Println(resp.Outcomes, resp.HarnessError)
	for _, v := range resp.Violations {
		fmt.Println(v.Summary)
		n := len(v.Trace)
		for i, l := range v.Trace {
			if i < 150 || i > n-150 || os.Getenv("SIMCHECK_FULLTRACE") != "" {
				fmt.Println("  ", l)
			}
		}
		for _, l := range v.Log {
			fmt.Println("  LOG", l)
		}
		fmt.Println(v.Fingerprint, v.Message)
	}
	return 0
}

func cmdScenarios() int {
	b, err := buildSimTree(buildOpts{})
	if err != nil {
		fatal2("%v", err)
	}
	resp, err := runWorker(b, Request{Mode: "list"}, 2, time.Minute)
	if err != nil {
		fatal2("%v", err)
	}
	for _, s := range resp.Scenarios {
		fmt.Println(s)
	}
	return 0
}

// selftest determinism: every (scenario, seed) batch is executed in several processes at
// different GOMAXPROCS; the per-run hashes must be identical.
func cmdSelftest(args []string) int {
	what := "determinism"
	if len(args) > 0 {
		what = args[0]
	}
	switch what {
	case "determinism":
		b, err := buildSimTree(buildOpts{})
		if err != nil {
			fatal2("%v", err)
		}
		lst, err := runWorker(b, Request{Mode: "list"}, 2, time.Minute)
		if err != nil {
			fatal2("%v", err)
		}
		runs := 40
		if len(args) > 1 {
			runs, _ = strconv.Atoi(args[1])
		}
		bad := 0
		pairs := 0
		var mu sync.Mutex
		var wg sync.WaitGroup
		sem := make(chan struct{}, runtime.NumCPU())
		for _, sc := range lst.Scenarios {
			for _, seed := range []uint64{1, 2, 3} {
				wg.Add(1)
				go func(sc string, seed uint64) {
					defer wg.Done()
					sem <- struct{}{}
					defer func() { <-sem }()
					var ref []uint64
					for k, gmp := range []int{1, 4, 16, 2} {
						r, err := runWorker(b, Request{Scenario: sc, Seed: seed, Start: 0, Stride: 1, Count: runs, Mode: "run", ListHashes: true, MaxViol: 1000}, gmp, 10*time.Minute)
						if err != nil {
							fatal2("%v", err)
						}
						if k == 0 {
							ref = r.RunHashes
							continue
						}
						mu.Lock()
						pairs += len(ref)
						if len(r.RunHashes) != len(ref) {
							bad++
							fmt.Printf("determinism: %s seed %d: %d vs %d runs at GOMAXPROCS=%d\n", sc, seed, len(ref), len(r.RunHashes), gmp)
						} else {
							for i := range ref {
								if ref[i] != r.RunHashes[i] {
									bad++
									fmt.Printf("determinism: %s seed %d run %d differs at GOMAXPROCS=%d\n", sc, seed, i, gmp)
									break
								}
							}
						}
						mu.Unlock()
					}
				}(sc, seed)
			}
		}
		wg.Wait()
		fmt.Printf("determinism: %d scenarios x 3 seeds x %d runs, each in 4 processes (GOMAXPROCS 1,4,16,2): %d run-pairs compared, %d mismatching batches\n", len(lst.Scenarios), runs, pairs, bad)
		if bad > 0 {
			return 2
		}
		return 0
	}
	fatal2("unknown selftest %q", what)
	return 2
}

func main() {
	if len(os.Args) < 2 {
		fmt.Fprintln(os.Stderr, "usage: simcheck run|replay|selftest|scenarios ...")
		os.Exit(2)
	}
	sig := make(chan os.Signal, 1)
	signal.Notify(sig, syscall.SIGINT, syscall.SIGTERM)
	go func() {
		<-sig
		cleanup()
		os.Exit(2)
	}()
	code := 2
	switch os.Args[1] {
	case "run":
		code = cmdRun(os.Args[2:])
	case "replay":
		code = cmdReplay(os.Args[2:])
	case "selftest":
		code = cmdSelftest(os.Args[2:])
	case "scenarios":
		code = cmdScenarios()
	case "debug":
		code = cmdDebug(os.Args[2:])
	default:
		fmt.Fprintln(os.Stderr, "unknown command", os.Args[1])
	}
	cleanup()
	os.Exit(code)
}
