#!/bin/sh
# run_all.sh [quick|thorough]: every claimed check, one after the other; prints a summary.
cd "$(dirname "$0")"
tier=${1:-quick}
rc=0
# PROPS="C09 C10 ..." limits and orders the properties (default: all, in MANIFEST order)
props=${PROPS:-$(python3 -c "import json;print(' '.join(c['property_id'] for c in json.load(open('MANIFEST.json'))['checks']))")}
for p in $props; do
	out=$(./check.sh $p $tier 2>&1); code=$?
	echo "$p exit=$code $(echo "$out" | tail -1)"
	echo "$out" | grep "^VIOLATION\|^KNOWN-FINDING" | cut -c1-160
	[ $code -ne 0 ] && rc=1
done
exit $rc
