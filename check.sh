#!/bin/sh
# check.sh <property> <tier>: the registered entry point of every check.
here=$(cd "$(dirname "$0")" && pwd)
cd "$here"
[ "$here" != /verif ] && export VERIF_DIR="$here"
[ -x bin/simcheck ] || ./setup.sh >/dev/null 2>&1 || { echo "setup failed"; exit 2; }
exec ./bin/simcheck run --property "$1" --tier "${2:-${VERIF_TIER:-quick}}"
