#!/bin/sh
# check.sh <property> <tier>: the registered entry point of every check.
here=$(cd "$(dirname "$0")" && pwd)
cd "$here"
[ "$here" != /verif ] && export VERIF_DIR="$here"
# a background run started with `vp run --with-repo` gets its own copy of /repo: check that copy and
# keep replays and evidence of that run inside its own snapshot of /verif
[ -n "$VP_RUN_REPO" ] && [ -d "$VP_RUN_REPO" ] && export SIMCHECK_REPO="$VP_RUN_REPO" SIMCHECK_OUT="$here"
[ -x bin/simcheck ] || ./setup.sh >/dev/null 2>&1 || { echo "setup failed"; exit 2; }
exec ./bin/simcheck run --property "$1" --tier "${2:-${VERIF_TIER:-quick}}"
